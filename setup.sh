#!/bin/bash
# Offline setup: nothing to download or build; verify that the worker interpreter can load the code under test.
cd "$(dirname "$0")" || exit 2
mkdir -p evidence replays
PY=${VERIF_PYTHON:-/venv/bin/python}
PYTHONPATH="$PWD" "$PY" - <<'PYEOF' || exit 2
import sys
import numpy, scipy
import compmech, compmech.panel, compmech.conecyl, compmech.analysis
import sim.core, sim.driver, sim.worker
print('setup ok: python %s numpy %s scipy %s compmech at %s' % (sys.version.split()[0], numpy.__version__, scipy.__version__, compmech.__file__))
PYEOF
