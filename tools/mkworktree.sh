#!/bin/bash
# usage: mkworktree.sh <dir>   - scratch worktree of /repo HEAD with the (untracked) built extensions symlinked in
set -e
D=$1
git -C /repo worktree add --detach "$D" HEAD >/dev/null 2>&1
cd /repo
git ls-files --others --ignored --exclude-standard compmech | grep -E '\.so$|version\.py$' | while read f; do
  mkdir -p "$D/$(dirname "$f")"; ln -sf "/repo/$f" "$D/$f"
done
echo "$D ready; run with: PYTHONPATH=$D /venv/bin/python ..."
