#!/bin/bash
# usage: verify_seeded.sh <src_dir_with_patch_and_demo> <id>
# Confirms in a fresh scratch worktree: patch applies, demo fails with it and passes without it, full test suite still passes.
SRC=$1; ID=$2
WT=/tmp/vs_$ID
rm -rf "$WT"; git -C /repo worktree prune
/verif/tools/mkworktree.sh "$WT" >/dev/null || exit 2
cd "$WT" || exit 2
OUT=/tmp/vs_$ID.result
{
echo "id=$ID"
PYTHONPATH=$WT MPLBACKEND=Agg timeout 600 /venv/bin/python "$SRC/demo.py" >/tmp/vs_$ID.demo_clean.log 2>&1; echo "demo_clean_rc=$?"
if git apply "$SRC/patch.diff"; then echo "apply=ok"; else echo "apply=FAILED"; fi
PYTHONPATH=$WT MPLBACKEND=Agg timeout 600 /venv/bin/python "$SRC/demo.py" >/tmp/vs_$ID.demo_mut.log 2>&1; echo "demo_mutant_rc=$?"
PYTHONPATH=$WT timeout 3000 /venv/bin/python -m pytest -q -p no:cacheprovider --timeout=900 --continue-on-collection-errors 2>&1 | tail -1 | sed 's/^/tests=/'
git checkout -- compmech
} > "$OUT" 2>&1
cd /; git -C /repo worktree remove --force "$WT"
cat "$OUT"
