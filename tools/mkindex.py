import json, os
# INDEX
root = '/verif/seeded'
ids = sorted(x for x in os.listdir(root) if os.path.isdir(os.path.join(root, x)))
metas = {i: json.load(open(os.path.join(root, i, 'meta.json'))) for i in ids}
n = len(ids)
missed_first = [i for i in ids if metas[i]['caught_by'].startswith(('MISSED', 'HARNESS-ERROR')) or not metas[i]['caught']]
notcaught = [i for i in ids if not metas[i]['caught']]
out = ["# Seeded changes from independent sub-agents", "",
 "Each directory: patch.diff, demo.py, README.md (sub-agent), meta.json (mine). %d changes in eleven rounds (a-k), all confirmed in" % n,
 "scratch worktrees (demo passes clean / fails with the patch, full suite 34 passed).",
 "%d were caught by the checks as they stood when the change arrived; %d were not (missed, or a correct refusal to report a non-replayable" % (n - len(missed_first), len(missed_first)),
 "failure); %d of those led to a wider workload or a new invariant and are caught now; %d (%s) are documented misses: C06-c-m1 only makes the open" % (len(missed_first) - len(notcaught), len(notcaught), ', '.join(notcaught)),
 "known finding C06-degenerate-multiplicity deterministic; C06-i-m1 only affects flutter analyses (non-symmetric stiffness side), outside C06's precondition.", "",
 "| id | property | needs to manifest | caught by |", "|----|----------|-------------------|-----------|"]
for i in ids:
    m = metas[i]
    out.append("| %s | %s | %s | %s |" % (i, m['property'], m['needs'].replace('|', '/'), m['caught_by'].replace('|', '/')))
open(os.path.join(root, 'INDEX.md'), 'w').write('\n'.join(out) + '\n')
print(n, len(missed_first), notcaught)
