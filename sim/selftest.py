"""Self-tests of the machinery: determinism of digests and sensitivity to seeded mutants.

  python -m sim.selftest mkpatches            regenerate mutants/*.patch from mutants/specs.py
  python -m sim.selftest sensitivity [Cxx] [name-substring]
  python -m sim.selftest determinism [Cxx]
"""
import difflib
import importlib.util
import os
import shutil
import subprocess
import sys
import tempfile
import time

from . import core, driver
from .core import VERIF_DIR, REPO_DIR


def load_specs():
    p = os.path.join(VERIF_DIR, 'mutants', 'specs.py')
    spec = importlib.util.spec_from_file_location('mutant_specs', p)
    m = importlib.util.module_from_spec(spec)
    spec.loader.exec_module(m)
    return m


def mkpatches():
    m = load_specs()
    outdir = os.path.join(VERIF_DIR, 'mutants')
    n = 0
    for name, prop, rel, old, new, note in m.SPECS:
        src = open(os.path.join(REPO_DIR, rel)).read()
        edits = m.MULTI.get(name) or [(old, new)]
        dst = src
        ok = True
        for o, nw in edits:
            if dst.count(o) != 1:
                print('SKIP %s: anchor occurs %d times in %s' % (name, dst.count(o), rel))
                ok = False
                break
            dst = dst.replace(o, nw)
        if not ok:
            continue
        diff = ''.join(difflib.unified_diff(src.splitlines(True), dst.splitlines(True), 'a/' + rel, 'b/' + rel))
        with open(os.path.join(outdir, name + '.patch'), 'w') as f:
            f.write('# property=%s note=%s\n' % (prop, note))
            f.write(diff)
        n += 1
    print('wrote %d patches' % n)


def make_overlay(patch_path):
    tmp = tempfile.mkdtemp(prefix='verif-ovl-')
    subprocess.check_call(['cp', '-rs', os.path.join(REPO_DIR, 'compmech'), os.path.join(tmp, 'compmech')])
    # materialise the files the patch touches
    for line in open(patch_path):
        if line.startswith('+++ b/'):
            rel = line[6:].strip()
            dst = os.path.join(tmp, rel)
            if os.path.islink(dst):
                os.unlink(dst)
            shutil.copyfile(os.path.join(REPO_DIR, rel), dst)
    r = subprocess.run(['patch', '-p1', '-s', '-d', tmp, '-i', patch_path], capture_output=True, text=True)
    if r.returncode != 0:
        shutil.rmtree(tmp, ignore_errors=True)
        raise RuntimeError('patch failed: %s %s' % (r.stdout, r.stderr))
    return tmp


def sensitivity(args):
    m = load_specs()
    want_prop = args[0].upper() if args and args[0].upper().startswith('C') and len(args[0]) == 3 else None
    sub = args[-1] if args and not (len(args) == 1 and want_prop) else None
    rows = []
    bad = 0
    for fn in sorted(os.listdir(os.path.join(VERIF_DIR, 'mutants'))):
        if not fn.endswith('.patch'):
            continue
        name = fn[:-6]
        prop = name.split('_')[0]
        if want_prop and prop != want_prop:
            continue
        if sub and sub not in name:
            continue
        ovl = make_overlay(os.path.join(VERIF_DIR, 'mutants', fn))
        t0 = time.time()
        try:
            rc, agg, _ = run_quiet(prop, ovl)
        finally:
            shutil.rmtree(ovl, ignore_errors=True)
        expect_benign = name in m.EXPECT_BENIGN
        ok = (rc == 0) if expect_benign else (rc == 1)
        if not ok:
            bad += 1
        rows.append((name, rc, 'benign-expected' if expect_benign else 'must-detect', 'OK' if ok else 'MISSED',
                     round(time.time() - t0, 1)))
        print('%-40s rc=%d %-16s %s %.1fs' % rows[-1])
        sys.stdout.flush()
    print('sensitivity: %d mutants, %d unexpected' % (len(rows), bad))
    return 1 if bad else 0


def run_quiet(prop, overlay, scale=None, tier='quick'):
    import contextlib
    import io
    buf = io.StringIO()
    scale = scale if scale is not None else float(os.environ.get('VERIF_SENS_SCALE', '0.5'))
    with contextlib.redirect_stdout(buf):
        rc, agg, dig = driver.run_check(prop, tier, int(os.environ.get('VERIF_SEED', '1')), extra_path=overlay,
                                        write_evidence=False, scale=scale, quiet=False)
    out = buf.getvalue()
    for line in out.splitlines():
        if line.startswith('VIOLATION') or line.startswith('  invariant') or line.startswith('HARNESS'):
            print('    ' + line[:300])
    return rc, agg, dig


def determinism(args):
    props = [a.upper() for a in args] or core.CLAIMED
    scale = float(os.environ.get('VERIF_DET_SCALE', '0.02'))
    bad = 0
    for prop in props:
        try:
            driver.load_prop(prop)
        except ImportError:
            print('%s: no module yet' % prop)
            continue
        seed = int(os.environ.get('VERIF_SEED', '1'))
        rc1, agg1, d1 = driver.run_check(prop, 'quick', seed, nworkers=16, hashseed=0, quiet=True,
                                         write_evidence=False, scale=scale, collect_digests=True)
        rc2, agg2, d2 = driver.run_check(prop, 'quick', seed, nworkers=3, hashseed=12345, quiet=True,
                                         write_evidence=False, scale=scale, collect_digests=True)
        diff = [k for k in d1 if d1[k] != d2.get(k)]
        print('%s determinism: %d scenarios run twice (W=16/hashseed 0 vs W=3/hashseed 12345), %d digest mismatches'
              % (prop, len(d1), len(diff)))
        for k in diff[:5]:
            print('   MISMATCH', k, d1[k], d2.get(k))
        if diff or len(d1) != len(d2):
            bad += 1
    return 1 if bad else 0


def seeded(args):
    """run the property check(s) against seeded/<id>/patch.diff in an overlay; args: [id-substring] [--props C11,C20]"""
    root = os.path.join(VERIF_DIR, 'seeded')
    sub = args[0] if args and not args[0].startswith('--') else None
    props_override = None
    for a in args:
        if a.startswith('--props='):
            props_override = a.split('=', 1)[1].split(',')
    bad = 0
    for name in sorted(os.listdir(root)):
        d = os.path.join(root, name)
        pf = os.path.join(d, 'patch.diff')
        if not os.path.isdir(d) or not os.path.exists(pf):
            continue
        if sub and sub not in name:
            continue
        props = props_override or [name.split('-')[0]]
        ovl = make_overlay(pf)
        try:
            for prop in props:
                t0 = time.time()
                rc, agg, _ = run_quiet(prop, ovl, scale=float(os.environ.get('VERIF_SENS_SCALE', '1.0')))
                print('%-28s %s rc=%d %s %.1fs' % (name, prop, rc, 'CAUGHT' if rc == 1 else ('missed' if rc == 0 else 'HARNESS-ERROR'),
                                                  time.time() - t0))
                sys.stdout.flush()
                if rc != 1:
                    bad += 1
        finally:
            shutil.rmtree(ovl, ignore_errors=True)
    return 1 if bad else 0


def main(argv):
    cmd = argv[0] if argv else 'all'
    if cmd == 'seeded':
        return seeded(argv[1:])
    if cmd == 'mkpatches':
        mkpatches()
        return 0
    if cmd == 'sensitivity':
        return sensitivity(argv[1:])
    if cmd == 'determinism':
        return determinism(argv[1:])
    if cmd == 'all':
        a = determinism([])
        b = sensitivity([])
        return 1 if (a or b) else 0
    print(__doc__)
    return 2


if __name__ == '__main__':
    sys.exit(main(sys.argv[1:]))
