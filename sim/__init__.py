"""Deterministic simulation with fault injection for compmech (see /verif/DESIGN.md)."""
