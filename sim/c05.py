"""C05 - buckling solver returns true eigenpairs, smallest positive load factor first.

System under simulation: the three real implementations (compmech.analysis.lb, Panel.lb,
ConeCyl.lb) with real ARPACK/LAPACK/remove_null_cols.  The simulator owns the ARPACK start
vector of every eigsh call (otherwise random) and a fault plan that makes the j-th eigsh call
fail, which drives the exception-handling fallback paths.  Oracle: dense reference model.
"""
from .core import Result, Violation, HarnessError, EventLog, bump, rng_for, sha_bytes, settle

PROP = 'C05'
TIMEOUT = 900
BATCHES = {
    'quick': [('F0', 2600), ('FI', 1600), ('M', 600)],
    'thorough': [('F0', 90000), ('FI', 50000), ('M', 7000)],
}
CHUNK = {'F0': 40, 'FI': 40, 'M': 6}
COST = {'F0': 1, 'FI': 1, 'M': 5}
RULE = ('scenario = (implementation in {analysis.lb sparse, analysis.lb dense, Panel.lb sparse/dense, ConeCyl.lb}, '
        'matrix pair (random SPD-on-active K with null rows, KG negative definite / low rank / w-only / mixed sign, '
        'sub- or super-critical; or a package model with random flags and loads), num_eigvalues, ARPACK start-vector '
        'class+seed per solver call, fault plan: which eigsh call raises what). Batches: F0 fault-free, FI fault-injecting, '
        'M package models. Non-trivial = a fallback/retry path ran (natural or injected), or null rows were present, or the '
        'dense path ran, or the spectrum was clustered; distinct = distinct (implementation, path taken, #solver calls, fault '
        'kinds, start-vector class, KG kind, criticality, null rows?, k vs size class).')
COMPONENTS = {
    'real': ['compmech.analysis.linear_buckling.lb', 'compmech.panel.Panel.lb', 'compmech.conecyl.ConeCyl.lb',
             'compmech.sparse.remove_null_cols', 'scipy.sparse.linalg.eigsh (ARPACK)', 'scipy.linalg.eigh (LAPACK)',
             'batch M: Panel.calc_k0/calc_kG0 and ConeCyl._calc_linear_matrices kernels'],
    'stub': ['ARPACK start vector (supplied by the simulator instead of the OS-seeded draw)',
             'injected solver failures (ArpackNoConvergence, ArpackError, singular factor, MemoryError, ValueError)',
             'batches F0/FI with Panel.lb/ConeCyl.lb: the matrix-building methods are replaced by ones returning the generated pair'],
}
ASSUMPTIONS = [
    'ordering (E3), path agreement (E4) and load scaling (E5) are demanded only for sub-critical destabilising pairs (KG negative semi-definite on the active block, all finite multipliers > 1), as the statement says',
    'exceptions raised by the analysis (e.g. shape errors when fewer than num_eigvalues values exist) are counted, not flagged: the property constrains what is returned',
    'multipliers more than 1e6 times larger in magnitude than the smallest one (|mu| < 1e-6 of the spectrum scale) are numerically infinite for the shift-invert transform and are not judged; the same holds for |mu| < 1.5e-14 absolute (64 ulps of the Cayley-transformed value at the fixed shift sigma=1)',
    'model-based pairs whose stiffness is not positive definite on the active amplitudes (rigid-body modes from free edges) are outside the precondition and skipped',
]


def generate(seed, batch):
    rng = rng_for(seed, 'C05', batch)
    scen = {'prop': PROP, 'seed': seed, 'batch': batch}
    scen['v0'] = {'cls': rng.choice(['gauss', 'gauss', 'const', 'alt', 'ramp', 'spike']), 'seed': rng.getrandbits(40)}
    scen['faults'] = []
    scen['second_v0'] = rng.random() < 0.25
    if batch in ('F0', 'FI'):
        n = rng.choice([5, 6, 8, 12, 20, 30, 45, 60, 90, 120, rng.randint(5, 200), rng.randint(5, 400)])
        scen['impl'] = rng.choice(['analysis', 'analysis', 'panel', 'conecyl'])
        scen['sparse'] = rng.random() < (0.75 if scen['impl'] != 'conecyl' else 1.1)
        scen['src'] = 'random'
        nnull = rng.choice([0, 0, 1, 2, 3, rng.randint(0, max(0, n // 3))])
        sub = rng.random() < 0.7
        scen['mat'] = {
            'n': n, 'nnull': nnull, 'density': rng.choice([1.0, 0.5, 0.2, 0.1]),
            'cond_exp': rng.choice([0.5, 1.0, 2.0, 4.0]), 'clustered': rng.random() < 0.3, 'chain': rng.random() < 0.12,
            'kg': rng.choice(['nsd-full', 'nsd-full', 'minus-identity', 'nsd-lowrank', 'w-only', 'mixed']),
            'rank': rng.randint(1, max(1, n)), 'mseed': rng.getrandbits(40),
            # (sub-critical: also reference loads far below buckling, multipliers up to 1e11)
            'lam_min': (10 ** rng.uniform(1.5, 11.0) if rng.random() < 0.15 else rng.uniform(1.05, 30.0)) if sub else rng.uniform(0.05, 0.95),
        }
        if rng.random() < 0.04:
            # large and very sparse (a few entries per row, random pattern): the complete factorisation of KG - K has many
            # times more entries than the matrix itself
            scen['mat'].update(n=rng.randint(380, 560), nnull=rng.choice([0, 0, 3]), clustered=False, chain=False,
                               kg=rng.choice(['minus-identity', 'w-only']), cond_exp=rng.choice([0.5, 1.0]))
            scen['mat']['density'] = 2.5 / scen['mat']['n']
            scen['sparse'] = True
        scen['k'] = rng.choice([1, 2, 3, 5, 10, 25, rng.randint(1, 25)])
        scen['scale_s'] = rng.uniform(0.1, 0.95) if rng.random() < 0.4 else None
        scen['cross_path'] = rng.random() < 0.4
        scen['second_pair'] = rng.random() < 0.3
        # an earlier analysis in the same process that asked for a loose solver tolerance (result not judged)
        scen['loose_first'] = 10 ** rng.uniform(-3, -1) if rng.random() < 0.15 else None
        scen['np_scalars'] = rng.random() < 0.3
        if batch == 'FI':
            nf = rng.choice([1, 1, 1, 2, 3])
            calls = rng.sample([1, 2, 3], nf)
            scen['faults'] = [{'call': c, 'kind': rng.choice(
                ['ArpackNoConvergence', 'ArpackError', 'SingularFactor', 'MemoryError', 'ValueError'])} for c in sorted(calls)]
    elif batch == 'M':
        kind = rng.choice(['panel', 'panel', 'panel', 'conecyl', 'assembly', 'bay'])
        scen['src'] = 'model'
        scen['sparse'] = rng.random() < 0.7 or kind == 'conecyl'
        scen['k'] = rng.choice([1, 2, 3, 5, 8])
        scen['scale_s'] = None
        scen['cross_path'] = rng.random() < 0.3
        scen['np_scalars'] = rng.random() < 0.3
        # the same object is used for a frequency analysis before the buckling analysis (both store their results on it)
        scen['freq_first'] = rng.random() < 0.3
        if kind == 'panel':
            scen['impl'] = rng.choice(['analysis', 'panel'])
            flags = {}
            for f in ['u1tx', 'u1rx', 'u2tx', 'u2rx', 'v1tx', 'v1rx', 'v2tx', 'v2rx', 'w1tx', 'w1rx', 'w2tx', 'w2rx',
                      'u1ty', 'u1ry', 'u2ty', 'u2ry', 'v1ty', 'v1ry', 'v2ty', 'v2ry', 'w1ty', 'w1ry', 'w2ty', 'w2ry']:
                if rng.random() < 0.25:
                    flags[f] = float(rng.choice([0, 1]))
            scen['model'] = {
                'kind': 'panel',
                'model': rng.choice(['plate_clt_donnell_bardell', 'plate_clt_donnell_bardell_w',
                                     'cpanel_clt_donnell_bardell', 'kpanel_clt_donnell_bardell']),
                'a': rng.uniform(0.3, 3.0), 'b': rng.uniform(0.3, 3.0), 'r': rng.uniform(1.0, 20.0),
                'alphadeg': rng.uniform(0.0, 30.0),
                'stack': rng.choice([[0, 90, 90, 0], [0, 90, -45, 45], [45, -45, 0, 90, 30], [0], [30, -30, 60]]),
                'plyt': 1.25e-4, 'm': rng.randint(2, 6), 'n': rng.randint(2, 6), 'flags': flags,
                'Nxx': rng.choice([-1.0, -1.0, -100.0, 0.0, 1.0]), 'Nyy': rng.choice([0.0, -1.0, -50.0, 2.0]),
                'Nxy': rng.choice([0.0, 0.0, 0.5, -3.0]),
                'loadmult': 10 ** rng.choice([rng.uniform(0, 5), rng.uniform(-5, 0)]),
                'Nxx_cte': rng.choice([None, None, -0.2, 0.3]), 'Nyy_cte': rng.choice([None, None, None, -0.1]),
            }
            scen['model_scale'] = rng.choice([None, None, 10 ** rng.uniform(-4, -1), 10 ** rng.uniform(1, 3)])
            # a second analysis on the same object after its edge flags were re-defined
            scen['redefine_flags'] = ({f: float(rng.choice([0, 1])) for f in rng.sample(
                ['u1tx', 'u2tx', 'v1tx', 'v2tx', 'w1tx', 'w1rx', 'w2tx', 'w2rx', 'u1ty', 'u2ty', 'v1ty', 'v2ty', 'w1ty', 'w1ry', 'w2ty', 'w2ry'],
                rng.randint(1, 4))} if rng.random() < 0.6 else None)
        elif kind in ('assembly', 'bay'):
            # matrices of multi-component models (other null-row patterns, penalty connections), solved by analysis.lb
            from . import c20 as _c20
            sub = _c20.generate(rng.getrandbits(48), 'A' if kind == 'assembly' else 'B')
            scen['impl'] = 'analysis'
            scen['model'] = {'kind': kind, 'defn': sub['defn']}
            if kind == 'assembly':
                for pd in scen['model']['defn']['panels']:
                    pd['Nxx'] = -1.0 * 10 ** rng.uniform(0, 3)
            else:
                scen['model']['defn']['Nxx'] = -1.0 * 10 ** rng.uniform(0, 3)
        else:
            scen['impl'] = 'conecyl'
            scen['model'] = {
                'kind': 'conecyl',
                # every shell model that advertises linear buckling (the last four have no prescribed leading amplitudes)
                'model': rng.choice(['clpt_donnell_bc1', 'clpt_donnell_bc2', 'clpt_donnell_bc3', 'clpt_donnell_bc4',
                                     'clpt_sanders_bc1', 'fsdt_donnell_bc1', 'fsdt_donnell_bcn',
                                     'clpt_sanders_bc2', 'clpt_sanders_bc3', 'clpt_sanders_bc4', 'fsdt_donnell_bc2', 'fsdt_donnell_bc3',
                                     'fsdt_donnell_bc4', 'iso_clpt_donnell_bc2', 'iso_clpt_donnell_bc3',
                                     'clpt_geier1997_bc2', 'fsdt_geier1997_bc2', 'fsdt_shadmehri2012_bc2', 'fsdt_shadmehri2012_bc3']),
                'm1': rng.randint(2, 8), 'm2': rng.randint(2, 4), 'n2': rng.randint(2, 4),
                'alphadeg': rng.choice([0.0, 0.0, rng.uniform(1.0, 35.0)]),
                'Fc': 10 ** rng.uniform(2, 6), 'r2': 250.0, 'H': rng.uniform(200., 800.),
                'stack': rng.choice([[0, 0, 19, -19, 37, -37, 45, -45, 51, -51], [45, -45, -45, 45], [0, 90, 90, 0]]),
            }
        if rng.random() < 0.3:
            scen['faults'] = [{'call': rng.choice([1, 2]), 'kind': rng.choice(
                ['ArpackNoConvergence', 'ArpackError', 'SingularFactor', 'MemoryError'])}]
    else:
        raise ValueError(batch)
    return scen


def shrink_candidates(scen):
    import copy
    if scen.get('faults'):
        for i in range(len(scen['faults'])):
            c = copy.deepcopy(scen)
            del c['faults'][i]
            yield c
    for key, val in (('scale_s', None), ('cross_path', False), ('redefine_flags', None), ('second_v0', False), ('model_scale', None), ('second_pair', False), ('loose_first', None), ('np_scalars', False), ('freq_first', False)):
        if scen.get(key) not in (val,):
            c = copy.deepcopy(scen)
            c[key] = val
            yield c
    if scen.get('v0', {}).get('cls') != 'gauss':
        c = copy.deepcopy(scen)
        c['v0']['cls'] = 'gauss'
        yield c
    if scen.get('k', 1) > 1:
        for k in (1, 2, scen['k'] // 2):
            if 0 < k < scen['k']:
                c = copy.deepcopy(scen)
                c['k'] = k
                yield c
    if scen.get('src') == 'random':
        m = scen['mat']
        for n in (5, 8, 12, m['n'] // 2, m['n'] - 1):
            if 5 <= n < m['n']:
                c = copy.deepcopy(scen)
                c['mat']['n'] = n
                c['mat']['nnull'] = min(m['nnull'], max(0, n - 4))
                c['k'] = min(scen['k'], max(1, n - 3))
                yield c
        if m['nnull'] > 0:
            for nn in (0, 1, m['nnull'] // 2):
                if nn < m['nnull']:
                    c = copy.deepcopy(scen)
                    c['mat']['nnull'] = nn
                    yield c
        for key, val in (('clustered', False), ('density', 1.0), ('cond_exp', 0.5), ('kg', 'minus-identity'),
                         ('kg', 'nsd-full')):
            if m.get(key) != val:
                c = copy.deepcopy(scen)
                c['mat'][key] = val
                yield c
        if scen['impl'] != 'analysis':
            c = copy.deepcopy(scen)
            c['impl'] = 'analysis'
            yield c
    else:
        mo = scen['model']
        if mo['kind'] in ('assembly', 'bay'):
            return
        for key in ('m', 'n', 'm1', 'm2', 'n2'):
            if key in mo and mo[key] > 2:
                c = copy.deepcopy(scen)
                c['model'][key] = mo[key] - 1
                yield c
        if mo.get('flags'):
            for f in list(mo['flags']):
                c = copy.deepcopy(scen)
                del c['model']['flags'][f]
                yield c


# --------------------------------------------------------------------------- execution

def build_model_matrices(scen):
    """Real package object for batch M; returns (obj, kind)."""
    import numpy as np
    mo = scen['model']
    if mo['kind'] in ('assembly', 'bay'):
        from . import c20 as _c20
        return _c20.build(mo['kind'], mo['defn'])
    if mo['kind'] == 'panel':
        from compmech.panel import Panel
        p = Panel()
        p.model = mo['model']
        p.a, p.b = mo['a'], mo['b']
        if 'cpanel' in mo['model'] or 'kpanel' in mo['model']:
            p.r = mo['r']
        if 'kpanel' in mo['model']:
            p.alphadeg = mo['alphadeg']
        p.stack = mo['stack']
        p.plyt = mo['plyt']
        p.laminaprop = (142.5e9, 8.7e9, 0.28, 5.1e9, 5.1e9, 5.1e9)
        p.m, p.n = mo['m'], mo['n']
        for f, v in mo['flags'].items():
            setattr(p, f, v)
        p.Nxx = mo['Nxx'] * mo['loadmult']
        p.Nyy = mo['Nyy'] * mo['loadmult']
        p.Nxy = mo['Nxy'] * mo['loadmult']
        if mo.get('Nxx_cte') is not None:
            p.Nxx_cte = mo['Nxx_cte']
        if mo.get('Nyy_cte') is not None:
            p.Nyy_cte = mo['Nyy_cte']
        return p
    from compmech.conecyl import ConeCyl
    cc = ConeCyl()
    cc.model = mo['model']
    cc.m1, cc.m2, cc.n2 = mo['m1'], mo['m2'], mo['n2']
    cc.alphadeg = mo['alphadeg']
    if mo['model'].startswith('iso_'):
        cc.E11, cc.nu, cc.h = 70e3, 0.3, 1.2
    else:
        cc.laminaprop = (123.55e3, 8.708e3, 0.319, 5.695e3, 5.695e3, 5.695e3)
        cc.stack = mo['stack']
        cc.plyt = 0.125
    cc.r2 = mo['r2']
    cc.H = mo['H']
    cc.Fc = mo['Fc']
    cc.pdC = False
    return cc


def call_impl(scen, K, KG, k, sparse, obj=None, tol=0):
    """Runs the implementation; returns (eigvals, eigvecs, pos) where pos = leading rows that are padding."""
    impl = scen['impl']
    if scen.get('np_scalars'):
        # counts and switches that come out of numpy computations (np.int64, np.bool_, np.float64) instead of Python literals
        import numpy as _np
        k = _np.int64(k)
        sparse = _np.bool_(sparse)
        tol = _np.float64(tol)
    if impl == 'analysis':
        from compmech.analysis import lb
        vals, vecs = lb(K, KG, tol=tol, sparse_solver=sparse, silent=True, num_eigvalues=k)
        return vals, vecs, 0
    if impl == 'panel':
        from compmech.panel import Panel
        if obj is None:
            p = Panel()

            def calc_k0(**kw):
                p.k0 = K
                return K

            def calc_kG0(**kw):
                p.kG0 = KG
                return KG
            p.calc_k0 = calc_k0
            p.calc_kG0 = calc_kG0
        else:
            p = obj
        p.num_eigvalues = k
        p.lb(tol=tol, sparse_solver=sparse, silent=True)
        return p.eigvals, p.eigvecs, 0
    if impl == 'conecyl':
        from compmech.conecyl import ConeCyl
        from scipy.sparse import csr_matrix, bmat
        import numpy as np
        if obj is None:
            class CC(ConeCyl):
                def _calc_linear_matrices(self, combined_load_case=None, silent=False):
                    pad = csr_matrix(np.eye(3))
                    self.k0 = bmat([[pad, None], [None, K]], format='csr')
                    self.kG0 = bmat([[pad * 0, None], [None, KG]], format='csr')
            cc = CC()
            cc.Fc = 1.
        else:
            cc = obj
        cc.num_eigvalues = k
        cc.lb(tol=tol)
        if obj is not None:
            from compmech.conecyl import modelDB as _mdb
            return cc.eigvals, cc.eigvecs, int(_mdb.db[cc.model]['num0'])   # leading amplitudes the model table declares
        return cc.eigvals, cc.eigvecs, 3
    raise HarnessError('impl ' + str(impl))


def check_result(scen, Kd, Gd, active, vals, vecs, pos, k, sparse, ref, log, res, tag=''):
    """E1, E2, value membership, E3 on a returned result."""
    import numpy as np
    n = Kd.shape[0]
    mu_ref, lam_ref = ref['mu'], ref['lam']
    vals = np.asarray(vals)
    vecs = np.asarray(vecs)
    if np.iscomplexobj(vals) and np.abs(vals.imag).max() > 0:
        raise Violation('E1-eigenpair' + tag, {'why': 'complex multipliers returned for a symmetric pair'})
    vals = vals.real.astype(float)
    if vecs.ndim != 2 or vecs.shape[0] != n + pos:
        raise Violation('E2-shape' + tag, {'why': 'mode matrix has %s rows for %d amplitudes' % (vecs.shape, n + pos)})
    body = vecs[pos:, :]
    if pos and np.any(vecs[:pos, :] != 0):
        raise Violation('E2-zeros' + tag, {'why': 'non-zero entries on the prescribed leading amplitudes'})
    null = np.setdiff1d(np.arange(n), active)
    if len(null) and np.any(body[null, :] != 0):
        raise Violation('E2-zeros' + tag, {'why': 'mode is non-zero on amplitudes that carry no stiffness',
                                           'null': null[:8].tolist()})
    npairs = min(len(vals), body.shape[1])
    nK = np.linalg.norm(Kd)
    nG = np.linalg.norm(Gd)
    scale_mu = np.abs(mu_ref).max()
    worst = 0.0

    def infinite(lam):
        # |mu| = 1/|lambda| below 1e-6 of the spectrum scale: numerically an infinite multiplier (the shift-invert
        # transform cannot separate it from the null space of KG), not judged
        # ... nor when |mu| is below 64 ulps of the transformed value nu=(mu+1)/(mu-1) ~ -1 the solver works with (fixed
        # shift sigma=1): a true mu=0 (mode in the null space of KG) comes back as mu ~ 1e-16, i.e. lambda ~ 1e15-1e16
        return (not np.isfinite(lam)) or lam == 0 or abs(1.0 / lam) <= max(1e-6 * scale_mu, 1.5e-14) or scale_mu == 0

    def pbound(mu):
        # first-order perturbation bound for the definite pencil (KG, K) under a relative backward error of 1e-12
        # plus the resolution of the Cayley transform around sigma=1, w'=(mu+1)/(mu-1): d(mu) ~ eps*cond(K)/2
        # (the second term only for the sparse path; the dense generalised solver has no transform)
        return 1e-12 * (nG / max(abs(mu), 1e-300) + nK) / ref['lmin'] + \
            (2e-15 * (nK / ref["lmin"]) * max(1.0, 1.0 / max(abs(mu), 1e-300)) if sparse else 0.0)

    def rtol(mu):
        return min(1e-4, max(1e-7, pbound(mu)))

    def ill(mu):
        # too ill-conditioned for a meaningful comparison of values: only the residual (E1) is judged
        return pbound(mu) > 1e-4
    rtol.ill = ill

    def pbound_scaled(mu, s_):
        # the same pair with the geometric matrix multiplied by s_: the backward-error term is unchanged (nG and mu scale
        # together), the transform term is that of the scaled multiplier mu*s_
        return 1e-12 * (nG / max(abs(mu), 1e-300) + nK) / ref['lmin'] + \
            (2e-15 * (nK / ref["lmin"]) * max(1.0, 1.0 / max(abs(mu * s_), 1e-300)) if sparse else 0.0)
    rtol.scaled = lambda mu, s_: min(1e-4, max(1e-7, pbound(mu), pbound_scaled(mu, s_)))
    rtol.ill_scaled = lambda mu, s_: max(pbound(mu), pbound_scaled(mu, s_)) > 1e-4

    for i in range(npairs):
        lam = vals[i]
        v = body[:, i]
        nv = np.linalg.norm(v)
        if infinite(lam):
            bump(res['probes'], 'infinite_multiplier_returned')
            continue
        if not (nv > 0) or not np.all(np.isfinite(v)):
            raise Violation('E1-eigenpair' + tag, {'why': 'zero or non-finite mode returned', 'index': i, 'lambda': float(lam)})
        r = np.linalg.norm(Kd.dot(v) + lam * Gd.dot(v))
        # solver precision: 1e-8 relative backward error, relaxed when the multiplier is far from the fixed shift
        # sigma=1 (Cayley transform resolution ~ eps*cond(K)/|mu|), never beyond 1e-4
        # ... except for the floating-point resolution of the transformed value itself: nu = (mu+1)/(mu-1) ~ -1 - 2 mu is a
        # double, so mu = -1/lambda is known to ~eps at best, i.e. lambda to a relative 4e-15*|lambda| (multipliers > 2.5e10)
        relb = max(1e-8, min(1e-4, 2e-15 * (nK / ref['lmin']) * max(1.0, abs(lam))), 4e-15 * abs(lam)) if sparse else 1e-8
        bound = relb * (nK + abs(lam) * nG) * nv
        worst = max(worst, r / max(bound, 1e-300))
        if not (r <= bound):
            raise Violation('E1-eigenpair' + tag, {'why': '(K + lambda KG) v is not zero to solver precision',
                                                   'index': i, 'lambda': float(lam), 'residual': float(r), 'bound': float(bound)})
    # every returned value is a true multiplier (match in mu-space, one-to-one)
    mus = []
    for lam in vals:
        if infinite(lam):
            continue
        mus.append(-1.0 / lam)
    refl = list(mu_ref)
    for m_ in mus:
        if ill(m_):
            bump(res['probes'], 'value_check_skipped_ill_conditioned')
            continue
        tol = rtol(m_) * abs(m_)
        j = None
        for jj, rr in enumerate(refl):
            if abs(rr - m_) <= tol and (j is None or abs(rr - m_) < abs(refl[j] - m_)):
                j = jj
        if j is None:
            raise Violation('E1-value' + tag, {'why': 'returned multiplier is not an eigenvalue of the pair (or is returned more often than its multiplicity)',
                                               'lambda': float(-1.0 / m_)})
        del refl[j]
    # E3 count, for sub-critical destabilising pairs (the case the property speaks about): "the k lowest positive multipliers",
    # so when the pair has at least k positive multipliers that are finite for the solver, k finite positive values have to
    # come back.  (For super-critical pairs the last-resort retry of ConeCyl.lb, buckling mode around -1, legitimately prefers
    # infinite multipliers to positive ones below 0.5; nothing is demanded there beyond E1/E2.)
    thr = 10.0 * max(1e-6 * scale_mu, 1.5e-14)
    counted = [m_ for m_ in mu_ref if m_ < -thr]
    n_expect = min(k, len(counted), max(len(active) - 2, 0) if sparse else len(counted))
    if n_expect and ref['subcritical'] and not any(ill(m_) for m_ in counted):
        if len(vals) < n_expect:
            raise Violation('E3-count' + tag, {'why': 'fewer multipliers returned than requested although the pair has that many positive ones',
                                               'requested': int(k), 'returned': int(len(vals)), 'positive_reference_values': len(counted)})
        fin_pos = [float(x) for x in vals if not infinite(x) and x > 0]
        if len(fin_pos) < n_expect:
            cs_ = np.sort(-1.0 / np.asarray(counted))
            spare = int(np.sum(np.abs(np.diff(cs_)) <= 1e-7 * np.abs(cs_[1:]))) if len(cs_) > 1 else 0
            raise Violation('E3-count' + tag, {'why': 'infinite or negative multipliers returned in place of positive finite ones',
                                               'requested': int(k), 'finite_positive_returned': len(fin_pos),
                                               'positive_reference_values': len(counted), 'returned': [float(x) for x in vals[:8]],
                                               'degenerate_undercount': bool(spare and n_expect - len(fin_pos) <= spare)})
        bump(res['probes'], 'E3_count_checked')
    # E3 ordering for sub-critical destabilising pairs
    if ref['subcritical']:
        pos_sorted = ref['lam_pos']
        want = len(pos_sorted) if not sparse else min(k, len(pos_sorted))
        want = min(want, len(vals))
        got = vals[:want]
        exp = pos_sorted[:want]
        from .eig import compare_sorted_with_multiplicity
        if any(ill(-1.0 / x) for x in list(got) + list(exp)):
            bump(res['probes'], 'E3_skipped_ill_conditioned')
            status = 'ok'
        else:
            status, info = compare_sorted_with_multiplicity(got, pos_sorted, lambda x: rtol(-1.0 / x))
        if status != 'ok':
            info = dict(info)
            info.update({'got': [float(x) for x in got[:8]], 'expected': [float(x) for x in exp[:8]],
                         'degenerate_undercount': status == 'undercount'})
            raise Violation('E3-order' + tag, info)
        bump(res['probes'], 'E3_checked')
    log.add('result' + tag, sha_bytes(np.ascontiguousarray(vals).tobytes()), [int(x) for x in vecs.shape])
    return rtol


def execute(scen):
    import numpy as np
    from scipy.sparse import csr_matrix
    import compmech.analysis.linear_buckling as m_lb
    import compmech.panel._panel as m_panel
    import compmech.conecyl.conecyl as m_cc
    from . import eig

    res = Result.new(PROP, scen.get('seed'))
    res['components'] = COMPONENTS
    log = EventLog()
    k = scen['k']
    sparse = scen['sparse']
    obj = None
    pos = 0
    seam = eig.SolverSeam(scen, res, log, names=('eigsh',))
    try:
        # ---- workload
        if scen['src'] == 'random':
            Kd, Gd, active = eig.make_pair_lb(scen['mat'])
        else:
            obj = build_model_matrices(scen)
            if scen['model']['kind'] in ('panel', 'assembly', 'bay'):
                K0 = obj.calc_k0(silent=True)
                G0 = obj.calc_kG0(silent=True)
                Kd, Gd = K0.toarray(), G0.toarray()
                bump(res['probes'], 'model_kind_' + scen['model']['kind'])
            else:
                obj._calc_linear_matrices()
                from compmech.conecyl import modelDB as _mdb
                n0_ = int(_mdb.db[obj.model]['num0'])
                Kd = csr_matrix(obj.k0).toarray()[n0_:, n0_:]
                Gd = csr_matrix(obj.kG0).toarray()[n0_:, n0_:]
                bump(res['probes'], 'shell_model_leading_amplitudes_%d' % n0_)
            active = np.where(np.abs(Kd).sum(axis=0) != 0)[0]
            if np.abs(Kd - Kd.T).max() > 1e-12 * np.abs(Kd).max() or np.abs(Gd - Gd.T).max() > 1e-12 * max(np.abs(Gd).max(), 1e-300):
                # the pair a package model hands to its own buckling analysis must be symmetric
                raise Violation('E0-symmetric', {'why': 'stiffness or geometric matrix produced by a package model is not symmetric',
                                                 'asym_K': float(np.abs(Kd - Kd.T).max()), 'asym_KG': float(np.abs(Gd - Gd.T).max()),
                                                 'model': scen['model'].get('model', scen['model']['kind'])})
            if len(active) < 3 or not eig.is_pd(Kd[np.ix_(active, active)]):
                bump(res['probes'], 'precondition_not_met(K not PD on active amplitudes)')
                res['digest'] = log.digest()
                res['signature'] = 'skip'
                return res
            if np.any(np.abs(Gd).sum(axis=0)[np.setdiff1d(np.arange(Kd.shape[0]), active)] != 0):
                bump(res['probes'], 'precondition_not_met(KG on stiffnessless amplitudes)')
                res['digest'] = log.digest()
                res['signature'] = 'skip'
                return res
        n = Kd.shape[0]
        mu, lam = eig.ref_lb(Kd, Gd, active)
        scale = np.abs(mu).max()
        nsd = mu.max() <= 1e-10 * scale
        lam_pos = np.sort(-1.0 / mu[mu < -1e-9 * scale])
        # sub-critical and destabilising: there are positive multipliers and the smallest one exceeds 1.  With a
        # mixed-sign KG the negative multipliers are farther from the shift in the Cayley metric |l-1|/|l+1| (> 1)
        # than every positive one above 1 (< 1), so the positive ones still have to come first, ascending
        sub = bool(len(lam_pos) and lam_pos.min() > 1.0)
        if sub and not nsd:
            bump(res['probes'], 'subcritical_with_mixed_sign_KG')
        ref = {'mu': mu, 'lam': lam, 'lam_pos': lam_pos, 'subcritical': sub,
               'lmin': float(np.linalg.eigvalsh(Kd[np.ix_(active, active)]).min())}
        K = csr_matrix(Kd)
        KG = csr_matrix(Gd)
        Kbytes = (K.data.tobytes(), KG.data.tobytes())
        log.add('pair', n, int(len(active)), bool(sub), bool(nsd), k, bool(sparse), scen['impl'])

        seam.install([m_lb, m_panel, m_cc])
        outcome = None
        if scen.get('freq_first') and scen['src'] == 'model' and scen['impl'] == 'panel' and obj is not None:
            saved_faults, seam.faults = seam.faults, {}
            try:
                if getattr(obj, 'mu', None) is None:
                    obj.mu = 1.3e3
                obj.num_eigvalues = min(int(k), 3)
                obj.freq(atype=4, silent=True)
                bump(res['probes'], 'frequency_analysis_first_on_the_same_object')
            except Exception as e:
                bump(res['exceptions'], 'freq_first_' + type(e).__name__)
            seam.faults, seam.calls, seam.modes = saved_faults, 0, []
        if scen.get('loose_first'):
            saved_faults, seam.faults = seam.faults, {}
            try:
                call_impl(scen, K, KG, k, sparse, obj=None if (scen['src'] == 'model' and scen['impl'] == 'analysis') else obj, tol=scen['loose_first'])
            except Exception as e:
                bump(res['exceptions'], 'loose_first_' + type(e).__name__)
            seam.faults, seam.calls, seam.modes = saved_faults, 0, []
            bump(res['probes'], 'loose_tolerance_call_first')
        try:
            if scen['src'] == 'model' and scen['impl'] == 'analysis':
                vals, vecs, pos = call_impl(scen, K, KG, k, sparse)
            else:
                vals, vecs, pos = call_impl(scen, K, KG, k, sparse, obj=obj)
            outcome = 'returned'
        except Violation:
            raise
        except Exception as e:
            outcome = 'raised'
            bump(res['exceptions'], type(e).__name__)
            log.add('raised', type(e).__name__)
        ncalls = seam.calls
        modes = list(seam.modes)
        # caller matrices untouched
        if (K.data.tobytes(), KG.data.tobytes()) != Kbytes:
            raise Violation('E0-inputs', {'why': 'the analysis modified the matrices passed in'})
        if outcome == 'returned':
            bump(res['probes'], 'returned_result')
            rtol = check_result(scen, Kd, Gd, active, vals, vecs, pos, k, sparse, ref, log, res)
            # E4 other path, E5 load scaling - only fault-free from here on
            seam.faults = {}
            if sub and scen.get('cross_path') and scen['impl'] != 'conecyl':
                try:
                    vals2, vecs2, _ = call_impl(scen, K, KG, k, not sparse, obj=None if scen['src'] == 'random' else obj)
                except Exception as e:
                    bump(res['exceptions'], 'cross_' + type(e).__name__)
                else:
                    check_result(scen, Kd, Gd, active, vals2, vecs2, pos, k, not sparse, ref, log, res, tag='(other-path)')
                    bump(res['probes'], 'E4_checked')
            if scen.get('second_pair') and scen['src'] == 'random':
                # a second analysis of the same size and mode count with other null rows, in the same process
                first_sha = (sha_bytes(np.ascontiguousarray(vals).tobytes()), sha_bytes(np.ascontiguousarray(vecs).tobytes()))
                mat2 = dict(scen['mat'])
                mat2['mseed'] = scen['mat']['mseed'] ^ 0x9E3779B9
                mat2['nnull'] = max(1, min(scen['mat']['n'] // 4, scen['mat']['nnull'] + 2))
                K2d, G2d, act2 = eig.make_pair_lb(mat2)
                mu2, lam2 = eig.ref_lb(K2d, G2d, act2)
                sc2 = np.abs(mu2).max()
                pos2 = np.sort(-1.0 / mu2[mu2 < -1e-9 * sc2])
                refp = {'mu': mu2, 'lam': lam2, 'lam_pos': pos2, 'subcritical': bool(len(pos2) and pos2.min() > 1.0),
                        'lmin': float(np.linalg.eigvalsh(K2d[np.ix_(act2, act2)]).min())}
                seam.faults = {}
                try:
                    vals6, vecs6, pos6 = call_impl(scen, csr_matrix(K2d), csr_matrix(G2d), k, sparse)
                except Exception as e:
                    bump(res['exceptions'], 'second_pair_' + type(e).__name__)
                else:
                    check_result(scen, K2d, G2d, act2, vals6, vecs6, pos6, k, sparse, refp, log, res, tag='(second-pair)')
                    bump(res['probes'], 'second_pair_checked')
                if (sha_bytes(np.ascontiguousarray(vals).tobytes()), sha_bytes(np.ascontiguousarray(vecs).tobytes())) != first_sha:
                    raise Violation('E9-result-altered', {'why': 'the arrays returned by the first analysis were modified by a later analysis'})
            if scen.get('second_v0'):
                # the same analysis from another start vector / restart stream: still the true eigenpairs
                seam.scen = dict(scen, v0={'cls': 'gauss', 'seed': scen['v0']['seed'] ^ 0x5DEECE66D})
                try:
                    vals4, vecs4, _ = call_impl(scen, K, KG, k, sparse, obj=None if scen['src'] == 'random' else obj)
                except Exception as e:
                    bump(res['exceptions'], 'second_v0_' + type(e).__name__)
                else:
                    check_result(scen, Kd, Gd, active, vals4, vecs4, pos, k, sparse, ref, log, res, tag='(other-start-vector)')
                    bump(res['probes'], 'second_start_vector_checked')
                seam.scen = scen
            s = scen.get('scale_s')
            if sub and s and scen['src'] == 'random' and lam_pos.min() / s > 1.0:
                try:
                    vals3, vecs3, _ = call_impl(scen, K, csr_matrix(Gd * s), k, sparse)
                except Exception as e:
                    bump(res['exceptions'], 'scaled_' + type(e).__name__)
                else:
                    ref_s = {'mu': mu * s, 'lam': lam / s, 'lam_pos': lam_pos / s, 'subcritical': True, 'lmin': ref['lmin']}
                    check_result(scen, Kd, Gd * s, active, vals3, vecs3, pos, k, sparse, ref_s, log, res, tag='(scaled-load)')
                    bump(res['probes'], 'E5_checked')
        # ---- E5 through the model: a panel whose reference load is s times larger has multipliers s times smaller
        ms = scen.get('model_scale')
        if ms and outcome == 'returned' and sub and scen['src'] == 'model' and scen['model']['kind'] == 'panel' \
                and lam_pos.min() / ms > 1.0:
            seam.faults = {}
            scen3 = dict(scen)
            scen3['model'] = dict(scen['model'])
            scen3['model']['loadmult'] = scen['model']['loadmult'] * ms
            p3 = build_model_matrices(scen3)
            try:
                if scen['impl'] == 'panel':
                    p3.num_eigvalues = k
                    p3.lb(tol=0, sparse_solver=sparse, silent=True)
                    v3 = np.asarray(p3.eigvals).real
                else:
                    from compmech.analysis import lb as _lb
                    v3 = np.asarray(_lb(p3.calc_k0(silent=True), p3.calc_kG0(silent=True), tol=0, sparse_solver=sparse, silent=True,
                                        num_eigvalues=k)[0]).real
            except Exception as e:
                bump(res['exceptions'], 'model_scaled_' + type(e).__name__)
            else:
                kk = min(k, len(lam_pos), len(v3))
                from .eig import compare_sorted_with_multiplicity
                # (tolerance: the larger of the two problems' bounds - with ms < 1 the second panel's multipliers are farther
                # from the fixed shift and less well resolved than the first one's)
                st3, info3 = compare_sorted_with_multiplicity(v3[:kk] * ms, lam_pos, lambda x: max(1e-6, 10 * rtol.scaled(-1.0 / x, ms)))
                if st3 == 'wrong' and not any(rtol.ill_scaled(-1.0 / x, ms) for x in lam_pos[:kk]):
                    raise Violation('E5-scaling', dict(info3, s=ms, why='a panel with the reference load scaled by s does not have multipliers divided by s',
                                                       scaled_times_s=(v3[:4] * ms).tolist(), base=lam_pos[:4].tolist()))
                bump(res['probes'], 'E5_model_checked')
        # ---- re-definition: the same Panel object analysed again after its edge flags changed must give the
        #      eigenpairs of the new matrices (nothing cached from the first analysis may survive)
        rf = scen.get('redefine_flags')
        if rf and outcome == 'returned' and scen['src'] == 'model' and scen['model']['kind'] == 'panel' and scen['impl'] == 'panel':
            seam.faults = {}
            scen2 = dict(scen)
            scen2['model'] = dict(scen['model'])
            scen2['model']['flags'] = dict(scen['model']['flags'])
            scen2['model']['flags'].update(rf)
            fresh = build_model_matrices(scen2)
            Kd2 = fresh.calc_k0(silent=True).toarray()
            Gd2 = fresh.calc_kG0(silent=True).toarray()
            act2 = np.where(np.abs(Kd2).sum(axis=0) != 0)[0]
            if len(act2) >= 3 and eig.is_pd(Kd2[np.ix_(act2, act2)]) and \
                    not np.any(np.abs(Gd2).sum(axis=0)[np.setdiff1d(np.arange(Kd2.shape[0]), act2)] != 0):
                for f, v in rf.items():
                    setattr(obj, f, v)
                mu2, lam2 = eig.ref_lb(Kd2, Gd2, act2)
                sc2 = np.abs(mu2).max()
                nsd2 = mu2.max() <= 1e-10 * sc2
                pos2 = np.sort(-1.0 / mu2[mu2 < -1e-9 * sc2])
                ref2 = {'mu': mu2, 'lam': lam2, 'lam_pos': pos2, 'subcritical': bool(len(pos2) and pos2.min() > 1.0),
                        'lmin': float(np.linalg.eigvalsh(Kd2[np.ix_(act2, act2)]).min())}
                try:
                    obj.num_eigvalues = k
                    obj.lb(tol=0, sparse_solver=sparse, silent=True)
                except Exception as e:
                    bump(res['exceptions'], 'redefined_' + type(e).__name__)
                    if 'Arpack' not in type(e).__name__:
                        # a deterministic refusal (singular factor, shape error): then a fresh object of the new definition
                        # must refuse as well - otherwise something of the first analysis survived in the long-lived object
                        try:
                            fresh.num_eigvalues = k
                            fresh.lb(tol=0, sparse_solver=sparse, silent=True)
                        except Exception:
                            pass
                        else:
                            raise Violation('E2-redefinition', {'why': 'after its edge flags were re-defined the analysis raises on the long-lived '
                                                                       'Panel although it returns on a fresh Panel of the same definition',
                                                                'exception': repr(e)[:160]})
                else:
                    check_result(scen, Kd2, Gd2, act2, obj.eigvals, obj.eigvecs, 0, k, sparse, ref2, log, res, tag='(after-redefinition)')
                    bump(res['probes'], 'redefinition_checked')
        # ---- classification
        injected = sorted(set(f['kind'] for f in scen.get('faults', []) if f['call'] <= ncalls))
        path = 'dense' if not sparse else ('direct' if ncalls == 1 else 'fallback%d' % ncalls)
        pr = res['probes']
        if sparse and ncalls >= 2:
            bump(pr, 'fallback_taken_injected' if injected else 'fallback_taken_natural')
        if 'buckling' in modes:
            bump(pr, 'conecyl_third_retry_buckling_mode')
        if len(active) < n:
            bump(pr, 'null_columns_present')
        if not sparse:
            bump(pr, 'dense_path')
        bump(pr, 'impl_' + scen['impl'])
        if k > n - 2:
            bump(pr, 'k_exceeds_size_minus_2')
        bump(pr, 'subcritical' if sub else ('supercritical_or_indefinite'))
        clustered = scen.get('mat', {}).get('clustered', False)
        res['nontrivial'] = bool(ncalls >= 2 or len(active) < n or not sparse or clustered or injected)
        res['signature'] = '%s/%s/%s/calls%d/%s/%s/%s/%s/%s/%s' % (
            scen['impl'], scen['src'], path, ncalls, '+'.join(injected) or 'nofault', scen['v0']['cls'],
            scen.get('mat', {}).get('kg', scen.get('model', {}).get('model', '')), 'sub' if sub else 'sup',
            'null' if len(active) < n else 'full', outcome)
        res['steps'] = ncalls
    except Violation as v:
        kid = None
        if v.invariant.startswith(('E3-order', 'E3-count')) and v.detail.get('degenerate_undercount'):
            kid = 'C05-degenerate-multiplicity'
        settle(res, v, kid)
    finally:
        seam.remove()
    res['digest'] = log.digest()
    return res
