"""C20 - results depend on the model definition only, not on call history or thread count.

System under simulation: long-lived Panel / PanelAssembly / StiffPanelBay / ConeCyl objects (real code, real
kernels, real ARPACK with start vectors that are a function of the operation, not of call order) driven by a
simulated client that issues public evaluation calls in arbitrary order, interleaved with thread-count changes,
plots and save/load.  Oracle: the reference model "fresh object" - the same operation executed alone on
build(definition) with one worker thread.
"""
import hashlib

from .core import Result, Violation, HarnessError, EventLog, bump, rng_for, sha_bytes, settle

PROP = 'C20'
TIMEOUT = 1800
BATCHES = {
    'quick': [('P', 600), ('A', 110), ('B', 110), ('S', 220), ('L', 60)],
    'thorough': [('P', 12000), ('A', 2500), ('B', 2500), ('S', 3500), ('L', 2000)],
}
CHUNK = {'P': 6, 'A': 3, 'B': 3, 'S': 3, 'L': 20}
COST = {'P': 1, 'A': 3, 'B': 3, 'S': 3, 'L': 0.2}
RULE = ('scenario = (object kind, definition (JSON), pools of amplitude vectors / point sets / load factors, history of '
        '5..40 client operations drawn from the public evaluation calls plus set-thread-count, plot and save->load). Every '
        'operation outcome (value or "raises") is compared with the outcome of the same operation executed alone on a '
        'freshly built object with one thread. Non-trivial = the history has at least two different operations before the '
        'one being compared (i.e. every scenario with >=3 ops); distinct = distinct ordered operation pairs (a before b on '
        'the same object) per object kind.')
COMPONENTS = {
    'real': ['compmech.panel.Panel', 'compmech.panel.assembly.PanelAssembly', 'compmech.stiffpanelbay.StiffPanelBay',
             'compmech.stiffener.BladeStiff1D/BladeStiff2D/TStiff2D', 'compmech.conecyl.ConeCyl',
             'compmech.analysis.lb/freq/static/Analysis', 'all kernels behind them', 'ARPACK/LAPACK/SuperLU',
             'matplotlib (plot operations)', 'pickle save/load on the real filesystem (private temp dir)'],
    'stub': ['the client (operation sequence)', 'ARPACK start vector: supplied as a function of (scenario seed, operation key) so '
             'that "the same quantity" has one reproducible answer independent of call order'],
}
ASSUMPTIONS = [
    '"identical" is bytewise, except for quantities integrated by integratev under a different thread count than the reference, '
    'where 1e-9 relative agreement is accepted and counted as rounding_only',
    'an operation that raises in every history (unsupported combination) is a consistent outcome; raising on the fresh object but '
    'returning after some history (or the converse) violates "each quantity can be requested first on a freshly defined object"',
    'the client never re-defines model attributes; operations that themselves change the definition are what the check looks for',
    'thread interleavings inside the OpenMP kernels are not controlled; thread counts and limits are',
]

LAMPROP = (142.5e9, 8.7e9, 0.28, 5.1e9, 5.1e9, 5.1e9)
FLAGS = ['u1tx', 'u1rx', 'u2tx', 'u2rx', 'v1tx', 'v1rx', 'v2tx', 'v2rx', 'w1tx', 'w1rx', 'w2tx', 'w2rx',
         'u1ty', 'u1ry', 'u2ty', 'u2ry', 'v1ty', 'v1ry', 'v2ty', 'v2ry', 'w1ty', 'w1ry', 'w2ty', 'w2ry']
STACKS = [[0, 90, 90, 0], [0, 90, -45, 45], [45, -45, 0, 90, 30], [0], [30, -30, 60]]

PANEL_OPS = ['k0', 'k0', 'kG0', 'kM', 'kA', 'cA', 'kT', 'fint', 'fext', 'lb', 'lb_dense', 'freq', 'freq_dense', 'static',
             'static_nl', 'uvw', 'strain', 'stress', 'plot', 'save_load', 'get_size', 'set_cores', 'k0_c', 'kG0_c',
             'mod_lb', 'mod_freq', 'mod_static', 'lb_c', 'k0_F', 'kT_F', 'fint_F', 'lb_cF', 'redef', 'twin']
ASM_OPS = ['redef', 'k0', 'k0', 'kG0', 'kG0', 'kM', 'kM', 'kT', 'kT', 'fint', 'fext', 'fext', 'uvw', 'strain', 'stress', 'k0_conn', 'uvw', 'strain', 'stress', 'set_cores', 'get_size',
           'mod_lb', 'mod_freq', 'mod_static', 'panel_k0', 'plot', 'an_static', 'an_static_nl', 'panel_kM', 'panel_fext', 'twin']
BAY_OPS = ['redef', 'k0', 'k0', 'kG0', 'kM', 'kA', 'cA', 'fext', 'uvw_skin', 'uvw_stiffener', 'get_size', 'set_cores',
           'mod_lb', 'mod_freq', 'mod_static', 'plot_skin', 'save_load', 'stiff_k0', 'plot_stiffener', 'twin']
SHELL_OPS = ['k0', 'k0', 'fext', 'kT', 'fint', 'lb', 'static', 'static_nl', 'uvw', 'strain', 'stress', 'get_size',
             'set_cores', 'set_ni_cores', 'save_load', 'plot', 'eigen', 'twin']


SOLVER_OPS = ('lb', 'lb_dense', 'lb_c', 'lb_cF', 'freq', 'freq_dense', 'static', 'static_nl', 'mod_lb', 'mod_freq', 'mod_static', 'eigen',
              'an_static', 'an_static_nl')


def gen_flags(rng, p=0.2):
    return {f: float(rng.choice([0, 1])) for f in FLAGS if rng.random() < p}


def gen_panel_def(rng, allow_none_model=True, mmax=5):
    model = rng.choice(['plate_clt_donnell_bardell'] * 3 + ['cpanel_clt_donnell_bardell'] * 3 + ['plate_clt_donnell_bardell_w',
                        'kpanel_clt_donnell_bardell'] + ([None, None] if allow_none_model else []))
    geom = rng.choice(['plate', 'cpanel', 'kpanel']) if model is None else (
        'plate' if 'plate' in model else ('cpanel' if 'cpanel' in model else 'kpanel'))
    d = {'model': model, 'geom': geom, 'a': rng.uniform(0.5, 3.0), 'b': rng.uniform(0.3, 2.0),
         'r': rng.uniform(2.0, 30.0), 'alphadeg': rng.uniform(2.0, 25.0),
         'm': rng.randint(3, mmax), 'n': rng.randint(3, mmax), 'flags': gen_flags(rng),
         'stack': rng.choice(STACKS), 'plyt': 1.25e-4, 'per_ply': rng.random() < 0.2,
         # a per-ply table may contain a ply of zero thickness (a dropped ply kept in the table): it contributes nothing
         'zero_ply': rng.choice([None, None, rng.randrange(8)]), 'forces_np': rng.random() < 0.3,
         'too_slow_TOL': rng.choice([None, None, 0.2, 0.5, 0.9, 0.99]),
         'offset': rng.choice([0.0, 0.0, 2e-4, -1e-4]),
         'Nxx': rng.choice([None, -1.0, -50.0]), 'Nyy': rng.choice([None, None, -3.0]), 'Nxy': rng.choice([None, None, 2.0]),
         'Nxx_cte': rng.choice([None, None, -5.0]),
         'mu': rng.choice([1.3e3] * 7 + [None]),
         'aero': rng.choice(['beta', 'mach', 'none']), 'flow': rng.choice(['x', 'x', 'y']),
         'forces': [[rng.uniform(0.1, 0.9), rng.uniform(0.1, 0.9), 0.0, 0.0, rng.uniform(-50, 50)] for _ in range(rng.randint(0, 2))],
         'forces_inc': [[rng.uniform(0.1, 0.9), rng.uniform(0.1, 0.9), rng.uniform(-5, 5), 0.0, rng.uniform(-100, 100)]
                        for _ in range(rng.randint(0, 2))],
         'nx': rng.randint(4, 7), 'ny': rng.randint(4, 7), 'num_eigvalues': rng.randint(1, 2)}
    return d


def gen_pools(rng):
    return {'cs': [{'seed': rng.getrandbits(32), 'scale': 10 ** rng.uniform(-4, -2),
                    'layout': rng.choice(['C', 'C', 'C', 'strided'])} for _ in range(2)],
            'pts': [{'seed': rng.getrandbits(32), 'n': rng.choice([1, 3, 7, 10]), 'grid': rng.random() < 0.4,
                     'gridx': rng.randint(2, 5), 'gridy': rng.randint(2, 5)} for _ in range(2)],
            'incs': [1.0, rng.uniform(0.1, 0.9)],
            'aeromu': rng.uniform(0.1, 2.0)}


def gen_ops(rng, menu, nmin=5, nmax=30, heavy=()):
    n = rng.randint(nmin, nmax)
    # swarm: a random subset of the menu is enabled per scenario
    enabled = [o for o in sorted(set(menu)) if rng.random() < 0.7]
    if len(enabled) < 3:
        enabled = sorted(set(menu))
    weights = [menu.count(o) * (0.25 if o in heavy else 1.0) for o in enabled]
    ops = []
    for _ in range(n):
        name = rng.choices(enabled, weights)[0]
        op = {'op': name, 'ci': rng.randrange(2), 'pi': rng.randrange(2), 'ii': rng.randrange(2),
              'nl': rng.random() < 0.5, 'k': rng.choice([1, 2, 3, 5, 8, 16]),
              'vec': rng.choice(['w', 'u', 'exx', 'Nxx', 'kxy']), 'atype': rng.choice([4, 4, 3]),
              'si': rng.randrange(3), 'region': rng.choice(['flange', 'base']), 'pidx': rng.randrange(4),
              'attr': rng.choice(['Nxx', 'Nyy', 'Nxy', 'mu', 'a', 'b', 'offset', 'flag', 'plyt', 'Nxx_cte']), 'val': rng.uniform(0.3, 2.5),
              # shells: full-size (prescribed amplitudes included) or reduced amplitude vector, with or without a load factor
              'full': rng.random() < 0.4, 'winc': rng.random() < 0.5,
              # analyses with the progress log switched on (silent=False) instead of off
              'loud': rng.random() < 0.4}
        if name == 'save_load' and rng.random() < 0.35:
            # disk fault while the object is being saved: no space at open(), or a write that fails after some bytes
            op['fault'] = {'seam': 'disk', 'kind': rng.choice(['enospc_at_open', 'short_write']), 'bytes': rng.choice([0, 17, 300, 4096])}
        if name not in ('set_cores', 'set_ni_cores', 'save_load', 'get_size') and rng.random() < 0.07:
            # transient allocation failure: the j-th call of an internal building block (laminate construction,
            # connection constants/kernels, matrix symmetrisation, linear-matrix set-up) raises MemoryError
            op['fault'] = {'seam': 'alloc', 'call': rng.choice([1, 1, 2, 3, 5, 8]), 'kind': 'MemoryError'}
        elif name in SOLVER_OPS and rng.random() < 0.2:
            # fault plan: the j-th solver call (eigsh/eigs/spsolve) made by this operation fails
            op['fault'] = {'call': rng.choice([1, 1, 2, 3, 5]),
                           'kind': rng.choice(['ArpackNoConvergence', 'ArpackError', 'SingularFactor', 'MemoryError'])}
        ops.append(op)
        follow = {'plot': 'uvw', 'plot_skin': 'uvw_skin', 'plot_stiffener': 'uvw_stiffener'}.get(name)
        if follow and follow in menu and rng.random() < 0.6:
            # a plot is typically followed by a look at the numbers behind it: the same field, same vector, same grid
            op2 = dict(op)
            op2.pop('fault', None)
            op2['op'] = follow
            ops.append(op2)
    return ops


def generate(seed, batch):
    rng = rng_for(seed, 'C20', batch)
    scen = {'prop': PROP, 'seed': seed, 'batch': batch, 'pools': gen_pools(rng)}
    if batch == 'P':
        scen['kind'] = 'panel'
        scen['defn'] = gen_panel_def(rng)
        scen['ops'] = gen_ops(rng, PANEL_OPS, heavy=('plot', 'static_nl', 'save_load'))
    elif batch == 'A':
        scen['kind'] = 'assembly'
        base = gen_panel_def(rng, allow_none_model=True, mmax=4)
        base['model'] = rng.choice(['plate_clt_donnell_bardell', 'cpanel_clt_donnell_bardell', None])
        base['geom'] = 'cpanel' if (base['model'] and 'cpanel' in base['model']) else rng.choice(['plate', 'cpanel'])
        if base['model'] and 'plate' in base['model']:
            base['geom'] = 'plate'
        npan = rng.randint(2, 3)
        panels = []
        for i in range(npan):
            d = dict(base)
            d['m'] = rng.randint(3, 4)
            d['n'] = rng.randint(3, 4)
            d['offset'] = rng.choice([0.0, 0.0, 2e-4, -1e-4])
            d['group'] = rng.choice(['g1', 'g1', 'g2'])
            d['flags'] = {f: 1.0 for f in FLAGS if f[1] in '12' and rng.random() < 0.5}
            d['forces'] = base['forces'] if i == 0 else []
            d['forces_inc'] = base['forces_inc'] if i == 0 else []
            panels.append(d)
        conns = []
        for i in range(npan - 1):
            func = rng.choice(['SSycte', 'SSxcte', 'BFycte', 'SB'])
            conns.append({'p1': i, 'p2': i + 1, 'func': func})
        gnames = rng.choice([['g1', 'g2'], ['g1', 'g2'], ['skin', 'skin_aft'], ['b10', 'b1'], ['a', 'ab']])
        for d in panels:
            d['group'] = gnames[0 if d['group'] == 'g1' else 1]
        scen['defn'] = {'panels': panels, 'conn': conns, 'gnames': gnames}
        scen['ops'] = gen_ops(rng, ASM_OPS, nmax=20, heavy=('plot',))
    elif batch == 'B':
        scen['kind'] = 'bay'
        kinds = rng.choice([[], ['bladestiff1d'], ['bladestiff2d'], ['tstiff2d'], ['bladestiff1d', 'tstiff2d'],
                            ['bladestiff2d', 'tstiff2d'], ['tstiff2d', 'tstiff2d']])
        scen['defn'] = {'a': rng.uniform(0.8, 3.0), 'b': rng.uniform(0.5, 2.0), 'r': rng.choice([None, None, rng.uniform(3., 20.)]),
                        'model': rng.choice(['explicit', 'explicit', None]),
                        'm': rng.randint(2, 4), 'n': rng.randint(2, 4), 'stack': rng.choice(STACKS), 'plyt': 1.25e-4,
                        'mu': rng.choice([1.3e3] * 5 + [None]), 'flags': gen_flags(rng, 0.15),
                        'aero': rng.choice(['beta', 'mach', 'none']), 'flow': rng.choice(['x', 'y']),
                        'Nxx': rng.choice([None, -1.0]),
                        'forces_skin': [[rng.uniform(0.1, 0.9), rng.uniform(0.1, 0.9), 0.0, 0.0, rng.uniform(-50, 50)]
                                        for _ in range(rng.choice([0, 0, 0, 1]))],
                        'stiffeners': [{'kind': kd, 'mb': rng.randint(2, 3), 'nb': rng.randint(2, 3), 'mf': rng.randint(2, 3),
                                        'nf': rng.randint(2, 3), 'bb': rng.uniform(0.05, 0.15), 'bf': rng.uniform(0.05, 0.15),
                                        'fforce': rng.random() < 0.5} for kd in kinds]}
        scen['ops'] = gen_ops(rng, BAY_OPS, nmax=20, heavy=('plot_skin',))
    elif batch == 'S':
        scen['kind'] = 'shell'
        model = rng.choice(['clpt_donnell_bc1', 'clpt_donnell_bc2', 'clpt_donnell_bc3', 'clpt_donnell_bc4', 'clpt_sanders_bc1',
                            'fsdt_donnell_bc1', 'fsdt_donnell_bcn', 'iso_clpt_donnell_bc2'])
        scen['defn'] = {'model': model, 'alphadeg': rng.choice([0.0, 0.0, rng.uniform(2., 30.)]),
                        'm1': rng.randint(2, 4), 'm2': rng.randint(1, 3), 'n2': rng.randint(1, 3),
                        'nx': rng.randint(8, 14), 'nt': rng.randint(9, 16), 'method': rng.choice(['trapz2d', 'simps2d']),
                        'stack': rng.choice([[0, 0, 19, -19, 37, -37, 45, -45, 51, -51], [45, -45, -45, 45], [0, 90, 90, 0]]),
                        'r2': rng.uniform(100., 400.), 'H': rng.uniform(200., 800.),
                        'Fc': rng.choice([None, None, 10 ** rng.uniform(2, 5)]), 'pdC': False,
                        'bc': rng.choice([None, None, 'ss1', 'cc2', 'ss3-cc4']),
                        'PL': rng.choice([0.0, 5.0, 50.0]), 'PL_inc': rng.random() < 0.5,
                        'P': rng.choice([0.0, 0.0, 0.01]), 'num_eigvalues': rng.randint(1, 3),
                        'c0': rng.random() < 0.15,
                        # non-zero prescribed amplitudes (top-edge rotation, load asymmetry)
                        'thetaTdeg': rng.choice([0.0, 0.0, rng.uniform(0.05, 0.5)]),
                        'betadeg': rng.choice([0.0, 0.0, rng.uniform(0.1, 2.0)])}
        # axial load given as a caller-supplied distribution table instead of the total force
        scen['defn']['Nxxtop'] = rng.uniform(5.0, 80.0) if (scen['defn']['Fc'] is None and rng.random() < 0.5) else None
        scen['defn']['too_slow_TOL'] = rng.choice([None, None, 0.2, 0.5, 0.9, 0.99])
        if scen['defn']['method'] == 'simps2d':
            scen['defn']['nx'] |= 1
            scen['defn']['nt'] |= 1
        scen['ops'] = gen_ops(rng, SHELL_OPS, nmax=18, heavy=('plot', 'static_nl'))
    elif batch == 'L':
        # the laminate constructor itself: repeated calls in one process, short (uniform plyt/laminaprop) and long
        # (per-ply lists) argument forms, different laminates interleaved
        scen['kind'] = 'laminate'
        mats = [LAMPROP, (123.55e3, 8.708e3, 0.319, 5.695e3, 5.695e3, 5.695e3), (70e9, 70e9, 0.3, 26.9e9, 26.9e9, 26.9e9)]
        scen['defn'] = {'lams': [{'stack': [rng.choice([0, 90, 45, -45, 30, -30, 60]) for _ in range(rng.randint(1, 8))],
                                  'plyt': rng.choice([1.25e-4, 2e-4, 0.125, 0.5e-3]), 'mat': rng.randrange(3),
                                  'offset': rng.choice([0.0, 0.0, 1e-4])} for _ in range(3)], 'mats': [list(m) for m in mats]}
        scen['ops'] = [{'op': rng.choice(['rs_short', 'rs_short', 'rs_long']), 'li': rng.randrange(3)} for _ in range(rng.randint(3, 12))]
    else:
        raise ValueError(batch)
    return scen


def shrink_candidates(scen):
    import copy
    ops = scen['ops']
    n = len(ops)
    # the violation is found at some op; keep histories short: drop chunks then single ops
    for keep in (1, 2, 3, n // 2, n - 1):
        if 0 < keep < n:
            c = copy.deepcopy(scen)
            c['ops'] = ops[:keep]
            yield c
            c = copy.deepcopy(scen)
            c['ops'] = ops[n - keep:]
            yield c
    for i in range(n):
        if n > 1:
            c = copy.deepcopy(scen)
            del c['ops'][i]
            yield c
    d = scen['defn']
    if scen['kind'] == 'laminate':
        return
    if scen['kind'] == 'panel':
        for key, val in (('offset', 0.0), ('per_ply', False), ('Nxx_cte', None), ('Nyy', None), ('Nxy', None)):
            if d.get(key) != val:
                c = copy.deepcopy(scen)
                c['defn'][key] = val
                yield c
        for f in list(d['flags']):
            c = copy.deepcopy(scen)
            del c['defn']['flags'][f]
            yield c
        for key in ('m', 'n'):
            if d[key] > 2:
                c = copy.deepcopy(scen)
                c['defn'][key] = d[key] - 1
                yield c
    if scen['kind'] == 'bay' and d['stiffeners']:
        for i in range(len(d['stiffeners'])):
            c = copy.deepcopy(scen)
            del c['defn']['stiffeners'][i]
            yield c
    if scen['kind'] == 'assembly' and len(d['panels']) > 2:
        c = copy.deepcopy(scen)
        c['defn']['panels'] = d['panels'][:2]
        c['defn']['conn'] = d['conn'][:1]
        yield c


# --------------------------------------------------------------------------- building objects

def _input_digest(x):
    import numpy as np
    if isinstance(x, np.ndarray):
        return sha_bytes(x.tobytes())
    if isinstance(x, (list, tuple)):
        return sha_bytes(('[' + ','.join(_input_digest(e) for e in x) + ']').encode())
    return sha_bytes(repr(x).encode())


def apply_panel_def(p, d, inputs=None):
    if d['model'] is not None:
        p.model = d['model']
    p.a, p.b = d['a'], d['b']
    if d['geom'] in ('cpanel', 'kpanel'):
        p.r = d['r']
    if d['geom'] == 'kpanel':
        p.alphadeg = d['alphadeg']
    p.stack = list(d['stack'])
    if d.get('per_ply'):
        p.plyts = [d['plyt'] for _ in d['stack']]
        if d.get('zero_ply') is not None and len(d['stack']) >= 2:     # (never the only ply)
            p.plyts[d['zero_ply'] % len(p.plyts)] = 0.0
        p.laminaprops = [LAMPROP for _ in d['stack']]
        if inputs is not None:
            # the caller's own tables
            for lst, what in ((p.stack, 'stack list'), (p.plyts, 'plyts list'), (p.laminaprops, 'laminaprops list')):
                inputs.append((lst, _input_digest(lst), what))
    else:
        p.plyt = d['plyt']
        p.laminaprop = LAMPROP
    p.m, p.n = d['m'], d['n']
    p.nx, p.ny = d['nx'], d['ny']
    p.offset = d['offset']
    for f, v in d['flags'].items():
        setattr(p, f, v)
    for k in ('Nxx', 'Nyy', 'Nxy', 'Nxx_cte'):
        if d.get(k) is not None:
            setattr(p, k, d[k])
    p.mu = d['mu']
    p.flow = d['flow']
    if d['aero'] == 'beta':
        p.beta, p.gamma, p.aeromu = 3.0, 0.5, 0.7
    elif d['aero'] == 'mach':
        p.Mach, p.V, p.rho_air, p.speed_sound = 2.0, 600.0, 0.3, 300.0
    p.forces = [list(f[:2]) + list(f[2:]) for f in ([[f[0] * d['a'], f[1] * d['b']] + f[2:] for f in d['forces']])]
    p.forces_inc = [[f[0] * d['a'], f[1] * d['b']] + f[2:] for f in d['forces_inc']]
    if d.get('forces_np'):
        # load tables kept as float64 arrays (rows of a load-case table) instead of lists
        import numpy as np
        p.forces = [np.array(f, dtype=float) for f in p.forces]
        p.forces_inc = [np.array(f, dtype=float) for f in p.forces_inc]
    if inputs is not None and (p.forces or p.forces_inc):
        inputs.append((p.forces, _input_digest(p.forces), 'forces table'))
        inputs.append((p.forces_inc, _input_digest(p.forces_inc), 'forces_inc table'))
    p.num_eigvalues = d['num_eigvalues']
    p.out_num_cores = 1
    p.analysis.initialInc = 0.5
    p.analysis.minInc = 0.05
    p.analysis.maxNumIter = 8
    if d.get('too_slow_TOL'):
        p.analysis.too_slow_TOL = d['too_slow_TOL']
    return p


def apply_redefinition(p, d, op):
    """change one definition attribute consistently on the long-lived Panel and in the definition dict"""
    a, v = op['attr'], op['val']
    if a in ('Nxx', 'Nyy', 'Nxy', 'Nxx_cte'):
        d[a] = -v * 10.0
        setattr(p, a, d[a])
    elif a == 'mu':
        d['mu'] = 1.3e3 * v
        p.mu = d['mu']
    elif a in ('a', 'b'):
        scale = d[a] * v / d[a]
        d['forces'] = [[f[0], f[1]] + f[2:] for f in d['forces']]
        d[a] = d[a] * v
        setattr(p, a, d[a])
        # forces are stored in absolute coordinates on the object: keep them at the same relative position
        p.forces = [[f[0] * d['a'], f[1] * d['b']] + f[2:] for f in d['forces']]
        p.forces_inc = [[f[0] * d['a'], f[1] * d['b']] + f[2:] for f in d['forces_inc']]
    elif a == 'offset':
        d['offset'] = (v - 1.0) * 2e-4
        p.offset = d['offset']
    elif a == 'flag':
        f = FLAGS[int(v * 1000) % len(FLAGS)]
        d['flags'] = dict(d['flags'])
        d['flags'][f] = 0.0 if d['flags'].get(f, getattr(p, f)) else 1.0
        setattr(p, f, d['flags'][f])
    elif a == 'plyt':
        d['plyt'] = 1.25e-4 * v
        if d.get('per_ply'):
            p.plyts = [d['plyt'] for _ in d['stack']]
            if d.get('zero_ply') is not None and len(d['stack']) >= 2:     # (never the only ply)
                p.plyts[d['zero_ply'] % len(p.plyts)] = 0.0
        else:
            p.plyt = d['plyt']
            p.plyts = None          # the per-ply list is derived from plyt: a consistent re-definition resets it
    return d


TWIN_VARIANTS = ('ortho', 'plyt', 'offset', 'same')


def run_twin(kind, d, op):
    """Another object in the same process: same kind, a variant of the definition (forced-orthotropic laminate, other
    ply thickness, other offset, or identical), asked for a few quantities and thrown away.  Nothing the subject
    returns afterwards may depend on it."""
    import copy
    var = TWIN_VARIANTS[op['pidx'] % len(TWIN_VARIANTS)]
    t = copy.deepcopy(d)

    def vary(pd):
        if var == 'plyt':
            pd['plyt'] = pd['plyt'] * 2.0
        elif var == 'offset' and 'offset' in pd:
            pd['offset'] = pd['offset'] + 1e-4

    if kind == 'panel':
        vary(t)
    elif kind == 'assembly':
        for pd in t['panels']:
            vary(pd)
    elif kind == 'bay':
        vary(t)
    twin = build(kind, t)
    if kind == 'shell' and var == 'plyt' and not d['model'].startswith('iso_'):
        twin.plyt = 0.25
    if var == 'ortho':
        members = [twin] if kind in ('panel', 'shell') else list(twin.panels)
        for m_ in members:
            m_.force_orthotropic_laminate = True
    try:
        twin.calc_k0(silent=True)
        if kind == 'panel':
            import numpy as np
            twin.stress(np.ones(panel_size(t)) * 1e-3, gridx=2, gridy=2)
        elif kind == 'shell':
            twin.calc_fext(silent=True)
    except Exception:
        pass
    return var


def panel_size(d):
    num = 1 if (d['model'] and d['model'].endswith('_w')) else 3
    return num * d['m'] * d['n']


def build(kind, d, inputs=None):
    """inputs: list that receives (array, sha, what) for arrays the caller hands to the object at definition time"""
    if kind == 'panel':
        from compmech.panel import Panel
        return apply_panel_def(Panel(), d, inputs)
    if kind == 'assembly':
        from compmech.panel import Panel
        from compmech.panel.assembly import PanelAssembly
        panels = []
        for pd in d['panels']:
            p = apply_panel_def(Panel(), pd, inputs)
            p.group = pd['group']
            panels.append(p)
        conn = []
        for cd in d['conn']:
            p1, p2 = panels[cd['p1']], panels[cd['p2']]
            e = {'p1': p1, 'p2': p2, 'func': cd['func']}
            if cd['func'] in ('SSycte', 'BFycte'):
                e.update(ycte1=0., ycte2=p2.b)
            elif cd['func'] in ('SSxcte', 'BFxcte'):
                e.update(xcte1=0., xcte2=p2.a)
            conn.append(e)
        asm = PanelAssembly(panels, conn)
        asm.out_num_cores = 1
        return asm
    if kind == 'bay':
        from compmech.stiffpanelbay import StiffPanelBay
        bay = StiffPanelBay()
        bay.a, bay.b, bay.r = d['a'], d['b'], d['r']
        bay.m, bay.n = d['m'], d['n']
        bay.stack = list(d['stack'])
        bay.plyt = d['plyt']
        bay.laminaprop = LAMPROP
        bay.mu = d['mu']
        if d['model'] == 'explicit':
            bay.model = 'plate_clt_donnell_bardell' if d['r'] is None else 'cpanel_clt_donnell_bardell'
        for f, v in d['flags'].items():
            setattr(bay, f, v)
        bay.flow = d['flow']
        if d['aero'] == 'beta':
            bay.beta, bay.gamma, bay.aeromu = 3.0, 0.5, 0.7
        elif d['aero'] == 'mach':
            bay.Mach, bay.V, bay.rho_air, bay.speed_sound = 2.0, 600.0, 0.3, 300.0
        nst = len(d['stiffeners'])
        cuts = [bay.b * (i + 1) / (nst + 1) for i in range(nst)]
        edges = [0.0] + cuts + [bay.b]
        for i in range(len(edges) - 1):
            kw = {}
            if d['Nxx'] is not None:
                kw['Nxx'] = d['Nxx']
            for a_ in ('Nxx', 'Nyy', 'mu'):
                if d.get('panel_' + a_) is not None:
                    kw[a_] = d['panel_' + a_]
            bay.add_panel(y1=edges[i], y2=edges[i + 1], plyt=bay.plyt, **kw)
        for sd, ys in zip(d['stiffeners'], cuts):
            kw = dict(ys=ys, bb=sd['bb'], bf=sd['bf'], bstack=[0, 90, 90, 0], bplyt=bay.plyt, blaminaprop=LAMPROP,
                      fstack=[0, 90, 90, 0], fplyt=bay.plyt, flaminaprop=LAMPROP)
            if sd['kind'] == 'tstiff2d':
                s = bay.add_tstiff2d(mb=sd['mb'], nb=sd['nb'], mf=sd['mf'], nf=sd['nf'], **kw)
            elif sd['kind'] == 'bladestiff2d':
                s = bay.add_bladestiff2d(mf=sd['mf'], nf=sd['nf'], **kw)
            else:
                s = bay.add_bladestiff1d(**kw)
            if sd['fforce'] and sd['kind'] != 'bladestiff1d':
                s.flange.forces.append([bay.a / 2., sd['bf'], 0., 0., 100.])
        bay.forces_skin = [[f[0] * d['a'], f[1] * d['b']] + f[2:] for f in d['forces_skin']]
        bay.out_num_cores = 1
        return bay
    if kind == 'shell':
        import numpy as np
        from compmech.conecyl import ConeCyl
        cc = ConeCyl()
        cc.model = d['model']
        cc.m1, cc.m2, cc.n2 = d['m1'], d['m2'], d['n2']
        cc.nx, cc.nt = d['nx'], d['nt']
        cc.ni_method = d['method']
        cc.ni_num_cores = 1
        cc.out_num_cores = 1
        cc.alphadeg = d['alphadeg']
        if d['model'].startswith('iso_'):
            cc.E11, cc.nu, cc.h = 70e3, 0.3, 1.2
        else:
            cc.laminaprop = (123.55e3, 8.708e3, 0.319, 5.695e3, 5.695e3, 5.695e3)
            cc.stack = list(d['stack'])
            cc.plyt = 0.125
        cc.r2, cc.H = d['r2'], d['H']
        cc.Fc = d['Fc']
        if d.get('Nxxtop') is not None:
            tab = np.zeros(2 * d['n2'] + 1)
            tab[0] = d['Nxxtop']
            cc.Nxxtop = tab
            if inputs is not None:
                inputs.append((tab, _input_digest(tab), 'Nxxtop table'))
        cc.bc = d['bc']
        cc.P = d['P']
        cc.num_eigvalues = d['num_eigvalues']
        if d.get('thetaTdeg'):
            cc.thetaTdeg = d['thetaTdeg']
        if d.get('betadeg'):
            cc.betadeg = d['betadeg']
        if d['PL']:
            # equivalent of add_SPL without touching derived state
            lst = cc.forces_inc if d['PL_inc'] else cc.forces
            lst.append([0.5 * d['H'], 0.0, 0., 0., -d['PL']])
        cc.forces_inc.append([0., 0.3, -15., 0., 0.])
        if d['c0']:
            rng = np.random.Generator(np.random.PCG64([7, 7]))
            cc.m0, cc.n0, cc.funcnum = 2, 2, 2
            cc.c0 = np.ascontiguousarray(rng.standard_normal(8) * 0.05)
        cc.analysis.initialInc = 0.5
        cc.analysis.minInc = 0.05
        cc.analysis.maxNumIter = 8
        if d.get('too_slow_TOL'):
            cc.analysis.too_slow_TOL = d['too_slow_TOL']
        return cc
    raise HarnessError(kind)


# --------------------------------------------------------------------------- canonical outcomes

def canon(x):
    import numpy as np
    from scipy.sparse import issparse
    if issparse(x):
        return ('sp', tuple(x.shape), np.ascontiguousarray(x.toarray()))
    if isinstance(x, np.ndarray):
        return np.ascontiguousarray(x)
    if isinstance(x, (list, tuple)):
        return [canon(v) for v in x]
    if isinstance(x, dict):
        return [(k, canon(x[k])) for k in sorted(x)]
    if isinstance(x, (np.floating, np.integer, np.complexfloating)):
        return np.asarray(x)
    if 'memoryview' in type(x).__name__.lower():
        return np.ascontiguousarray(np.asarray(x))
    return x


def digest_of(c):
    import numpy as np
    h = hashlib.sha1()

    def walk(v):
        if isinstance(v, np.ndarray):
            h.update(str(v.dtype).encode() + str(v.shape).encode() + v.tobytes())
        elif isinstance(v, (list, tuple)):
            h.update(b'[')
            for e in v:
                walk(e)
            h.update(b']')
        else:
            h.update(repr(v).encode())
    walk(c)
    return h.hexdigest()[:16]


def compare(a, b, rtol):
    """returns (identical, close, where)"""
    import numpy as np
    ident = [True]
    close = [True]
    where = [None]

    def walk(u, v, path):
        if isinstance(u, np.ndarray) and isinstance(v, np.ndarray):
            if u.shape != v.shape or u.dtype != v.dtype:
                ident[0] = close[0] = False
                where[0] = where[0] or (path, 'shape/dtype %s%s vs %s%s' % (u.shape, u.dtype, v.shape, v.dtype))
                return
            if u.tobytes() != v.tobytes():
                ident[0] = False
                with np.errstate(all='ignore'):
                    scale = np.nanmax(np.abs(v)) if v.size else 0.0
                    d = np.abs(u - v)
                    bad = ~((d <= rtol * scale) | (np.isnan(u) & np.isnan(v)) | (u == v))
                if np.any(bad):
                    close[0] = False
                    i = int(np.argmax(bad.ravel()))
                    where[0] = where[0] or (path, 'index %d: %r vs %r (scale %g)' % (i, u.ravel()[i].item(), v.ravel()[i].item(), scale))
        elif isinstance(u, (list, tuple)) and isinstance(v, (list, tuple)):
            if len(u) != len(v):
                ident[0] = close[0] = False
                where[0] = where[0] or (path, 'length %d vs %d' % (len(u), len(v)))
                return
            for i, (x, y) in enumerate(zip(u, v)):
                walk(x, y, path + [i])
        else:
            if isinstance(u, np.ndarray) or isinstance(v, np.ndarray) or u != v:
                if not (u is None and v is None):
                    ident[0] = close[0] = False
                    where[0] = where[0] or (path, '%r vs %r' % (type(u).__name__, type(v).__name__) if isinstance(u, np.ndarray) or isinstance(v, np.ndarray) else '%r vs %r' % (u, v))
    walk(a, b, [])
    return ident[0], close[0], where[0]


# --------------------------------------------------------------------------- operations

class Env(object):
    """per-scenario inputs (amplitude vectors, point sets) and input-mutation tracking"""

    def __init__(self, scen, size_of):
        import numpy as np
        self.scen = scen
        self.np = np
        self.size_of = size_of
        self._cs = {}
        self.tracked = []

    def c(self, i, size):
        np = self.np
        key = (i, size)
        if key not in self._cs:
            spec = self.scen['pools']['cs'][i]
            rng = np.random.Generator(np.random.PCG64([spec['seed'], size]))
            self._cs[key] = np.ascontiguousarray(rng.standard_normal(size) * spec['scale'])
        arr = self._cs[key].copy()
        if self.scen['pools']['cs'][i].get('layout') == 'strided':
            # every other element of a larger buffer: a legal 1-D array that is not contiguous
            base = np.zeros(2 * size)
            base[::2] = arr
            arr = base[::2]
        self.track(arr, 'amplitude vector')
        return arr

    def pts(self, i, a, b):
        np = self.np
        spec = self.scen['pools']['pts'][i]
        if spec['grid']:
            return None, None, {'gridx': spec['gridx'], 'gridy': spec['gridy']}
        rng = np.random.Generator(np.random.PCG64([spec['seed'], 3]))
        xs = np.ascontiguousarray(rng.uniform(0, a, spec['n']))
        ys = np.ascontiguousarray(rng.uniform(0, b, spec['n']))
        self.track(xs, 'xs')
        self.track(ys, 'ys')
        return xs, ys, {}

    def ftable(self, d):
        """laminate table per integration point, (nx, ny, 6, 6), a smooth perturbation of one ABD matrix"""
        np = self.np
        import compmech.composite.laminate as laminate
        lam = laminate.read_stack(list(d['stack']), plyts=[d['plyt']] * len(d['stack']),
                                  laminaprops=[LAMPROP] * len(d['stack']), offset=d['offset'])
        F = np.array(lam.ABD, dtype=float)
        nx, ny = d['nx'], d['ny']
        fac = 1.0 + 0.1 * np.add.outer(np.linspace(0, 1, nx), np.linspace(0, 1, ny))
        F4 = np.ascontiguousarray(fac[:, :, None, None] * F[None, None, :, :])
        self.track(F4, 'Fnxny table')
        return F4

    def track(self, arr, what):
        self.tracked.append((arr, sha_bytes(arr.tobytes()), what))

    def track_sparse(self, m, what):
        self.tracked.append((m.data, sha_bytes(m.data.tobytes()), what + '.data'))
        self.tracked.append((m.indices, sha_bytes(m.indices.tobytes()), what + '.indices'))

    def check_inputs(self):
        for arr, sha, what in self.tracked:
            if sha_bytes(arr.tobytes()) != sha:
                return what
        self.tracked = []
        return None


def run_op(kind, obj, op, env, d):
    """Executes one client operation; returns the raw outcome value (to be canonicalised)."""
    name = op['op']
    pools = env.scen['pools']
    if kind == 'panel':
        return run_panel_op(obj, op, env, d)
    if kind == 'assembly':
        return run_asm_op(obj, op, env, d)
    if kind == 'bay':
        return run_bay_op(obj, op, env, d)
    if kind == 'shell':
        return run_shell_op(obj, op, env, d)
    raise HarnessError(kind)


def _mod_ops(name, K, KG, M, fext, env, nev):
    from compmech.analysis import lb, freq, static
    if name == 'mod_lb':
        env.track_sparse(K, 'K')
        env.track_sparse(KG, 'KG')
        return lb(K, KG, silent=True, num_eigvalues=nev)
    if name == 'mod_freq':
        env.track_sparse(K, 'K')
        env.track_sparse(M, 'M')
        return freq(K, M, silent=True, num_eigvalues=nev)
    if name == 'mod_static':
        env.track_sparse(K, 'K')
        env.track(fext, 'fext')
        return static(K, fext, silent=True)


def run_panel_op(p, op, env, d):
    import numpy as np
    name = op['op']
    size = panel_size(d)
    pools = env.scen['pools']
    if name == 'k0':
        return p.calc_k0(silent=True)
    if name == 'k0_c':
        return p.calc_k0(c=env.c(op['ci'], size), silent=True, NLgeom=op['nl'])
    if name in ('k0_F', 'kT_F', 'fint_F', 'lb_cF'):
        # caller-supplied laminate table per integration point (nx, ny, 6, 6): must not be modified, and using it
        # must not change what later calls without a table return
        F4 = env.ftable(d)
        c = env.c(op['ci'], size)
        if name == 'k0_F':
            return p.calc_k0(Fnxny=F4, nx=d['nx'], ny=d['ny'], silent=True)
        if name == 'kT_F':
            return p.calc_kT(c=c, Fnxny=F4, nx=d['nx'], ny=d['ny'], silent=True)
        if name == 'fint_F':
            return p.calc_fint(c, Fnxny=F4, nx=d['nx'], ny=d['ny'], silent=True)
        p.lb(silent=True, c=c, Fnxny=F4, nx=d['nx'], ny=d['ny'])
        return (p.eigvals, p.eigvecs)
    if name == 'kG0':
        return p.calc_kG0(silent=True)
    if name == 'kG0_c':
        return p.calc_kG0(c=env.c(op['ci'], size), silent=True, NLgeom=op['nl'])
    if name == 'kM':
        return p.calc_kM(silent=True)
    if name == 'kA':
        return p.calc_kA(silent=True)
    if name == 'cA':
        p.calc_cA(pools['aeromu'], silent=True)
        return p.cA
    if name == 'kT':
        return p.calc_kT(c=env.c(op['ci'], size), silent=True)
    if name == 'fint':
        return p.calc_fint(env.c(op['ci'], size), silent=True)
    if name == 'fext':
        return p.calc_fext(inc=pools['incs'][op['ii']], silent=True)
    if name in ('lb', 'lb_dense'):
        p.lb(silent=True, sparse_solver=(name == 'lb'))
        return (p.eigvals, p.eigvecs)
    if name == 'lb_c':
        p.lb(silent=True, c=env.c(op['ci'], size), nx=5, ny=5)
        return (p.eigvals, p.eigvecs)
    if name in ('freq', 'freq_dense'):
        p.freq(atype=op['atype'], silent=True, sparse_solver=(name == 'freq'))
        return (p.eigvals, p.eigvecs)
    if name == 'static':
        cs = p.static(silent=not op.get('loud'))
        return (p.analysis.increments, cs)
    if name == 'static_nl':
        cs = p.static(NLgeom=True, silent=not op.get('loud'))
        return (p.analysis.increments, cs)
    if name in ('uvw', 'strain', 'stress'):
        xs, ys, kw = env.pts(op['pi'], d['a'], d['b'])
        c = env.c(op['ci'], size)
        if name == 'uvw':
            return p.uvw(c, xs=xs, ys=ys, **kw)
        if name == 'strain':
            return p.strain(c, xs=xs, ys=ys, NLterms=op['nl'], **kw)
        return p.stress(c, xs=xs, ys=ys, NLterms=op['nl'], **kw)
    if name == 'plot':
        import matplotlib.pyplot as plt
        spec_ = pools['pts'][op['pi']]
        kw = dict(gridx=spec_['gridx'], gridy=spec_['gridy']) if spec_['grid'] else dict(gridx=4, gridy=4)
        if op['nl']:
            # caller-supplied 2-D point arrays and a deformed plot: the arrays must come back untouched
            np_ = env.np
            X, Y = np_.meshgrid(np_.linspace(0, d['a'], 4), np_.linspace(0, d['b'], 3))
            X, Y = np_.ascontiguousarray(X), np_.ascontiguousarray(Y)
            env.track(X, 'plot xs')
            env.track(Y, 'plot ys')
            kw = dict(xs=X, ys=Y, deform_u=bool(op['pi']), deform_u_sf=50.)
        ax = p.plot(env.c(op['ci'], size), vec=op['vec'], filename='plot.png', dpi=30, **kw)
        plt.close('all')
        return 'plotted'
    if name == 'get_size':
        return p.get_size()
    if name == 'set_cores':
        p.out_num_cores = op['k']
        return 'set'
    if name in ('mod_lb', 'mod_freq', 'mod_static'):
        K = p.calc_k0(silent=True)
        KG = p.calc_kG0(silent=True) if name == 'mod_lb' else None
        M = p.calc_kM(silent=True) if name == 'mod_freq' else None
        fext = p.calc_fext(silent=True) if name == 'mod_static' else None
        return _mod_ops(name, K, KG, M, fext, env, d['num_eigvalues'])
    raise HarnessError('panel op ' + name)


def asm_size(d):
    return sum(3 * pd['m'] * pd['n'] for pd in d['panels'])


def run_asm_op(asm, op, env, d):
    name = op['op']
    size = asm_size(d)
    pools = env.scen['pools']
    group = d.get('gnames', ['g1', 'g2'])[0 if op['pi'] == 0 else 1]
    if name == 'k0':
        return asm.calc_k0(silent=True)
    if name == 'kG0':
        return asm.calc_kG0(silent=True)
    if name == 'kM':
        return asm.calc_kM(silent=True)
    if name == 'kT':
        return asm.calc_kT(c=env.c(op['ci'], size), silent=True)
    if name == 'fint':
        return asm.calc_fint(env.c(op['ci'], size), silent=True)
    if name == 'fext':
        return asm.calc_fext(inc=pools['incs'][op['ii']], silent=True)
    if name == 'k0_conn':
        return asm.get_k0_conn()
    if name == 'uvw':
        return asm.uvw(env.c(op['ci'], size), group, gridx=3, gridy=4)
    if name == 'strain':
        return asm.strain(env.c(op['ci'], size), group, gridx=3, gridy=4, NLterms=op['nl'])
    if name == 'stress':
        return asm.stress(env.c(op['ci'], size), group, gridx=3, gridy=4, NLterms=op['nl'])
    if name == 'plot':
        import matplotlib.pyplot as plt
        ax, data = asm.plot(env.c(op['ci'], size), group, vec=op['vec'], gridx=3, gridy=3, filename='asm.png', dpi=30)
        plt.close('all')
        return data
    if name == 'set_cores':
        asm.out_num_cores = op['k']
        return 'set'
    if name == 'get_size':
        return asm.get_size()
    if name == 'panel_k0':
        p = asm.panels[op['pidx'] % len(asm.panels)]
        return p.calc_k0(silent=True)
    if name == 'panel_kM':
        p = asm.panels[op['pidx'] % len(asm.panels)]
        return p.calc_kM(silent=True)
    if name == 'panel_fext':
        p = asm.panels[op['pidx'] % len(asm.panels)]
        return p.calc_fext(silent=True)
    if name in ('an_static', 'an_static_nl'):
        # one Analysis object per assembly, shared by all analyses of the history (as a user script would keep it)
        from compmech.analysis import Analysis
        an = getattr(asm, '_verif_analysis', None)
        if an is None:
            an = Analysis(asm.calc_fext, asm.calc_k0, asm.calc_fint, asm.calc_kT)
            an.initialInc = 0.5
            an.minInc = 0.05
            an.maxNumIter = 6
            asm._verif_analysis = an
        incs, cs = an.static(NLgeom=(name == 'an_static_nl'), silent=True)
        return (list(incs), list(cs))
    if name in ('mod_lb', 'mod_freq', 'mod_static'):
        K = asm.calc_k0(silent=True)
        KG = asm.calc_kG0(silent=True) if name == 'mod_lb' else None
        M = asm.calc_kM(silent=True) if name == 'mod_freq' else None
        fext = asm.calc_fext(silent=True) if name == 'mod_static' else None
        return _mod_ops(name, K, KG, M, fext, env, 2)
    raise HarnessError('assembly op ' + name)


def bay_size(d):
    s = 3 * d['m'] * d['n']
    for sd in d['stiffeners']:
        if sd['kind'] == 'bladestiff2d':
            s += 3 * sd['mf'] * sd['nf']
        elif sd['kind'] == 'tstiff2d':
            s += 3 * sd['mf'] * sd['nf'] + 3 * sd['mb'] * sd['nb']
    return s


def run_bay_op(bay, op, env, d):
    name = op['op']
    size = bay_size(d)
    pools = env.scen['pools']
    if name == 'k0':
        return bay.calc_k0(silent=True)
    if name == 'kG0':
        return bay.calc_kG0(silent=True)
    if name == 'kM':
        return bay.calc_kM(silent=True)
    if name == 'kA':
        return bay.calc_kA(silent=True)
    if name == 'cA':
        return bay.calc_cA(silent=True)
    if name == 'fext':
        return bay.calc_fext(silent=True)
    if name == 'uvw_skin':
        xs, ys, kw = env.pts(op['pi'], d['a'], d['b'])
        return bay.uvw_skin(env.c(op['ci'], size), xs=xs, ys=ys, **kw)
    if name == 'uvw_stiffener':
        nst = len(d['stiffeners'])
        if not nst:
            return 'no stiffener'
        return bay.uvw_stiffener(env.c(op['ci'], size), op['si'] % nst, region=op['region'], gridx=3, gridy=3)
    if name == 'plot_skin':
        import matplotlib.pyplot as plt
        # (same default grid as the uvw_skin queries of this history when those use a grid; optionally a deformed plot)
        spec = pools['pts'][op['pi']]
        gx_, gy_ = (spec['gridx'], spec['gridy']) if spec['grid'] else (4, 4)
        bay.plot_skin(env.c(op['ci'], size), vec='w', gridx=gx_, gridy=gy_, filename='bay.png', dpi=30,
                      deform_u=bool(op['nl']), deform_u_sf=50.)
        plt.close('all')
        return 'plotted'
    if name == 'get_size':
        return bay.get_size()
    if name == 'set_cores':
        bay.out_num_cores = op['k']
        return 'set'
    if name == 'stiff_k0':
        nst = len(d['stiffeners'])
        if not nst:
            return 'no stiffener'
        st = bay.stiffeners[op['si'] % nst]
        return st.calc_k0(size=bay_size(d), row0=0, col0=0, silent=True, finalize=False)
    if name == 'plot_stiffener':
        nst = len(d['stiffeners'])
        if not nst:
            return 'no stiffener'
        import matplotlib.pyplot as plt
        bay.plot_stiffener(env.c(op['ci'], size), op['si'] % nst, region=op['region'], vec='w', gridx=3, gridy=3,
                           filename='stf.png', dpi=30, deform_u=bool(op['nl']), deform_u_sf=50.)
        plt.close('all')
        return 'plotted'
    if name in ('mod_lb', 'mod_freq', 'mod_static'):
        K = bay.calc_k0(silent=True)
        KG = bay.calc_kG0(silent=True) if name == 'mod_lb' else None
        M = bay.calc_kM(silent=True) if name == 'mod_freq' else None
        fext = bay.calc_fext(silent=True) if name == 'mod_static' else None
        return _mod_ops(name, K, KG, M, fext, env, 2)
    raise HarnessError('bay op ' + name)


def shell_sizes(d):
    from compmech.conecyl.modelDB import get_model
    md = get_model(d['model'])
    size = md['num0'] + md['num1'] * d['m1'] + md['num2'] * d['m2'] * d['n2']
    return size, size - 2     # default pdT, pdLA prescribed -> two excluded amplitudes


def run_shell_op(cc, op, env, d):
    import numpy as np
    name = op['op']
    size, nu = shell_sizes(d)
    pools = env.scen['pools']
    if name == 'k0':
        return cc.calc_k0(silent=True)
    if name == 'fext':
        return cc.calc_fext(inc=pools['incs'][op['ii']], silent=True)
    # amplitude vector of this operation: reduced (prescribed amplitudes left out) or full size, optionally with a load factor
    csize = size if op.get('full') else nu
    kwinc = {'inc': pools['incs'][op['ii']]} if op.get('winc') else {}
    if name == 'kT':
        return cc.calc_kT(env.c(op['ci'], csize), silent=True, **kwinc)
    if name == 'fint':
        return cc.calc_fint(env.c(op['ci'], csize), silent=True, **kwinc)
    if name == 'lb':
        cc.lb()
        return (cc.eigvals, cc.eigvecs)
    if name == 'eigen':
        cc.eigen()
        return (cc.eigvals, cc.eigvecs)
    if name == 'static':
        cs = cc.static(silent=not op.get('loud'))
        return (cc.increments, cs)
    if name == 'static_nl':
        cs = cc.static(NLgeom=True, silent=not op.get('loud'))
        return (cc.increments, cs)
    if name in ('uvw', 'strain', 'stress'):
        spec = pools['pts'][op['pi']]
        rng = np.random.Generator(np.random.PCG64([spec['seed'], 5]))
        L = d['H'] / np.cos(np.deg2rad(d['alphadeg']))
        xs = np.ascontiguousarray(rng.uniform(0, L, spec['n']))
        ts = np.ascontiguousarray(rng.uniform(-np.pi, np.pi, spec['n']))
        env.track(xs, 'xs')
        env.track(ts, 'ts')
        c = env.c(op['ci'], csize)
        return getattr(cc, name)(c, xs=xs, ts=ts, **kwinc)
    if name == 'plot':
        import matplotlib.pyplot as plt
        cc.plot(env.c(op['ci'], nu), vec='w', gridx=5, gridt=7, filename='cc.png', dpi=30, plot_type=4 if not d['alphadeg'] else 1)
        plt.close('all')
        return 'plotted'
    if name == 'get_size':
        return cc.get_size()
    if name == 'set_cores':
        cc.out_num_cores = op['k']
        return 'set'
    if name == 'set_ni_cores':
        cc.ni_num_cores = min(op['k'], 8)
        return 'set'
    raise HarnessError('shell op ' + name)


def op_key(kind, op):
    name = op['op']
    parts = [name]
    if name in ('k0_c', 'kG0_c', 'kT', 'fint', 'lb_c', 'uvw', 'strain', 'stress', 'plot', 'uvw_skin', 'uvw_stiffener', 'plot_skin',
                'kT_F', 'fint_F', 'lb_cF'):
        parts.append('c%d' % op['ci'])
    if name in ('uvw', 'strain', 'stress', 'uvw_skin'):
        parts.append('p%d' % op['pi'])
    if name in ('fext',):
        parts.append('i%d' % op['ii'])
    if name in ('strain', 'stress', 'k0_c', 'kG0_c'):
        parts.append('nl%d' % int(op['nl']))
    if name in ('freq', 'freq_dense'):
        parts.append('a%d' % op['atype'])
    if name == 'plot':
        parts += [op['vec'], 'x%d%d' % (int(op['nl']), op['pi'])]
    if name == 'uvw_stiffener':
        parts += ['s%d' % op['si'], op['region']]
    if name in ('panel_k0', 'panel_kM', 'panel_fext'):
        parts.append('p%d' % op['pidx'])
    if name in ('stiff_k0',):
        parts.append('s%d' % op['si'])
    if name == 'plot_stiffener':
        parts += ['c%d' % op['ci'], 's%d' % op['si'], op['region'], 'd%d' % int(op['nl'])]
    if name == 'plot_skin':
        parts += ['p%d' % op['pi'], 'd%d' % int(op['nl'])]
    if name in ('set_cores', 'set_ni_cores'):
        parts.append(str(op['k']))
    if name == 'redef':
        parts.append(op['attr'])
    if name == 'twin':
        parts.append(TWIN_VARIANTS[op['pidx'] % len(TWIN_VARIANTS)])
    if kind == 'shell' and name in ('kT', 'fint', 'uvw', 'strain', 'stress'):
        parts.append('f%d' % int(bool(op.get('full'))))
        if op.get('winc'):
            parts.append('i%d' % op['ii'])
    return '/'.join(parts)


NO_COMPARE = ('set_cores', 'set_ni_cores', 'save_load', 'redef', 'twin')
THREAD_SENSITIVE_SHELL = ('kT', 'fint', 'static_nl')


class KeySeam(object):
    """ARPACK start vectors as a function of (scenario seed, operation key, call index inside the operation)."""

    def __init__(self, seed):
        self.seed = seed
        self.key = ''
        self.n = 0
        self.nsolver = 0
        self.nalloc = 0
        self.fault = None
        self.fired = None
        self.patched = []

    def begin(self, key, fault=None):
        self.key = key
        self.n = 0
        self.nsolver = 0
        self.nalloc = 0
        self.fault = fault
        self.fired = None

    def maybe_fail_alloc(self):
        self.nalloc += 1
        if self.fault and self.fault.get('seam') == 'alloc' and self.nalloc == self.fault['call']:
            self.fired = 'alloc_MemoryError'
            raise MemoryError('injected allocation failure')

    def wrap_alloc(self, real):
        seam = self

        def wrapper(*a, **kw):
            seam.maybe_fail_alloc()
            return real(*a, **kw)
        return wrapper

    def maybe_fail(self):
        self.nsolver += 1
        if self.fault and self.fault.get('seam', 'solver') == 'solver' and self.nsolver == self.fault['call']:
            from .eig import make_fault
            self.fired = self.fault['kind']
            raise make_fault(self.fault['kind'])

    def wrap_plain(self, real):
        seam = self

        def wrapper(*a, **kw):
            seam.maybe_fail()
            return real(*a, **kw)
        return wrapper

    def wrap(self, real):
        seam = self

        def wrapper(*a, **kw):
            import numpy as np
            seam.maybe_fail()
            seam.n += 1
            A = kw.get('A', a[0] if a else None)
            n = A.shape[0]
            h = hashlib.sha256(('%d|%s|%d|%d' % (seam.seed, seam.key, seam.n, n)).encode()).digest()
            rng = np.random.Generator(np.random.PCG64(int.from_bytes(h[:8], 'big')))
            if 'v0' not in kw:
                kw['v0'] = rng.standard_normal(n)
            if 'rng' not in kw:
                kw['rng'] = rng      # ARPACK restarts draw from this generator, not from the OS
            return real(*a, **kw)
        return wrapper

    def install(self):
        import sys
        import compmech.analysis  # noqa
        import compmech.panel._panel as m1
        import compmech.conecyl.conecyl as m2
        mods = [sys.modules['compmech.analysis.freq'], sys.modules['compmech.analysis.linear_buckling'], m1, m2]
        for mod in mods:
            for name in ('eigsh', 'eigs'):
                if hasattr(mod, name):
                    real = getattr(mod, name)
                    self.patched.append((mod, name, real))
                    setattr(mod, name, self.wrap(real))
        import compmech.sparse as msp
        self.patched.append((msp, 'spsolve', msp.spsolve))
        msp.spsolve = self.wrap_plain(msp.spsolve)
        # allocation-failure seams: internal building blocks reached through module attributes
        import compmech.composite.laminate as mlam
        import compmech.panel.connections as mconn
        import compmech.panel.assembly.assembly as masm
        import compmech.stiffpanelbay.stiffpanelbay as mbay
        import compmech.conecyl.modelDB as mccdb
        targets = [(mlam, 'read_stack'), (mconn, 'calc_kt_kr'), (m1, 'finalize_symmetric_matrix'),
                   (masm, 'finalize_symmetric_matrix'), (mbay, 'finalize_symmetric_matrix'), (m2, 'make_symmetric'),
                   (mccdb, 'get_linear_matrices'), (m1, 'make_skew_symmetric')]
        for sub in ('kCSSycte', 'kCSSxcte', 'kCBFycte', 'kCBFxcte', 'kCSB'):
            mod = getattr(mconn, sub, None)
            if mod is not None:
                for fn in dir(mod):
                    if fn.startswith('fk'):
                        targets.append((mod, fn))
        for mod, name in targets:
            if hasattr(mod, name):
                real = getattr(mod, name)
                try:
                    setattr(mod, name, self.wrap_alloc(real))
                except (AttributeError, TypeError):
                    continue
                self.patched.append((mod, name, real))

    def remove(self):
        for mod, name, real in self.patched:
            setattr(mod, name, real)
        self.patched = []


def outcome_of(kind, obj, op, env, d, seam, key, fault=None):
    """('value', canon) | ('raises', class name)"""
    seam.begin(key, fault)
    try:
        val = run_op(kind, obj, op, env, d)
    except (Violation, HarnessError):
        raise
    except Exception as e:
        return ('raises', type(e).__name__, repr(e)[:160])
    finally:
        seam.fault = None      # faults are armed for the duration of the operation only
    seam.last_raw = val
    return ('value', canon(val), None)


class _DiskFault(OSError):
    pass


def save_with_disk_fault(kind, obj, fault):
    """obj.save() with the file system failing underneath it; returns True if the failure was injected"""
    import builtins
    real_open = builtins.open
    fired = [False]

    class _ShortWriter(object):
        def __init__(self, f, limit):
            self.f, self.left = f, limit

        def write(self, data):
            if len(data) > self.left:
                self.f.write(data[:self.left])
                self.left = 0
                fired[0] = True
                raise _DiskFault(28, 'No space left on device (injected, short write)')
            self.left -= len(data)
            return self.f.write(data)

        def __getattr__(self, name):
            return getattr(self.f, name)

        def __enter__(self):
            return self

        def __exit__(self, *a):
            return self.f.__exit__(*a)

    def faulty_open(name, mode='r', *a, **kw):
        if 'w' in mode and os.path.basename(str(name)).startswith('subject'):
            if fault['kind'] == 'enospc_at_open':
                fired[0] = True
                raise _DiskFault(28, 'No space left on device (injected, open)')
            return _ShortWriter(real_open(name, mode, *a, **kw), int(fault.get('bytes', 0)))
        return real_open(name, mode, *a, **kw)
    import os
    obj.name = 'subject'
    builtins.open = faulty_open
    try:
        obj.save()
    finally:
        builtins.open = real_open
    return fired[0]


def save_load(kind, obj):
    if kind == 'panel':
        from compmech.panel._panel import load
        obj.name = 'subject'
        obj.save()
        return load('subject')
    if kind == 'shell':
        from compmech.conecyl.conecyl import load
        obj.name = 'subject'
        obj.save()
        return load('subject')
    if kind == 'bay':
        from compmech.stiffpanelbay.stiffpanelbay import load
        obj.name = 'subject'
        obj.save()
        return load('subject')
    return obj


def execute_laminate(scen):
    """world L: every read_stack call must give what the per-ply-list form gives for the same laminate, whatever
    was built before it in this process, and must not touch the caller's lists."""
    import numpy as np
    import compmech.composite.laminate as laminate
    res = Result.new(PROP, scen.get('seed'))
    res['components'] = COMPONENTS
    log = EventLog()
    d = scen['defn']
    sigs = set()
    prev = []

    def global_state():
        # process-global mutable state of the composite modules: default arguments and module-level containers
        import compmech.composite.lamina as lamina
        import compmech.composite.matlamina as matlamina
        out = []
        for mod in (laminate, lamina, matlamina):
            for name, v in sorted(vars(mod).items()):
                f = getattr(v, '__func__', v)
                if hasattr(f, '__defaults__') and getattr(f, '__module__', None) == mod.__name__:
                    out.append((mod.__name__, name, repr(f.__defaults__), repr(getattr(f, '__kwdefaults__', None))))
                elif isinstance(v, (list, dict, set)) and not name.startswith('__'):
                    out.append((mod.__name__, name, len(v)))
        return out
    try:
        seen = {}
        for idx, op in enumerate(scen['ops']):
            g0 = global_state()
            L = d['lams'][op['li']]
            prop = tuple(d['mats'][L['mat']])
            stack = list(L['stack'])
            n = len(stack)
            plyts = [L['plyt']] * n
            props = [prop] * n
            ref = laminate.read_stack(list(stack), plyts=list(plyts), laminaprops=list(props), offset=L['offset'])
            if op['op'] == 'rs_short':
                lam = laminate.read_stack(stack, plyt=L['plyt'], laminaprop=prop, offset=L['offset'])
            else:
                lam = laminate.read_stack(stack, plyts=plyts, laminaprops=props, offset=L['offset'])
            if global_state() != g0:
                # checked before any value comparison so that the verdict does not depend on what earlier scenarios
                # did to this interpreter
                raise Violation('H6-global-state', {'kind': 'laminate', 'op': op['op'], 'index': idx,
                                                    'why': 'the call changed process-global state of the composite modules '
                                                           '(mutable default arguments / module-level containers)'}, step=idx)
            if stack != list(L['stack']) or plyts != [L['plyt']] * n or props != [prop] * n:
                raise Violation('H3-inputs', {'kind': 'laminate', 'op': op['op'], 'index': idx, 'why': 'read_stack modified the lists passed in'})
            got = (np.array(lam.ABD, dtype=float), float(lam.t), len(lam.plies))
            want = (np.array(ref.ABD, dtype=float), float(ref.t), len(ref.plies))
            res['steps'] += 1
            log.add(idx, op['op'], op['li'], sha_bytes(got[0].tobytes()))
            if got[0].tobytes() != want[0].tobytes() or got[1] != want[1] or got[2] != want[2]:
                raise Violation('H1-same-outcome', {'kind': 'laminate', 'op': '%s/l%d' % (op['op'], op['li']), 'index': idx,
                                                    'history': prev[-6:], 'plies': [got[2], want[2]], 't': [got[1], want[1]],
                                                    'why': 'read_stack result depends on the laminates built before it'}, step=idx)
            key = (op['op'], op['li'])
            if key in seen and seen[key] != sha_bytes(got[0].tobytes()):
                raise Violation('H2-repeat', {'kind': 'laminate', 'op': str(key), 'index': idx}, step=idx)
            seen[key] = sha_bytes(got[0].tobytes())
            for po in set(prev):
                sigs.add('laminate:%s>%s' % (po, op['op']))
            prev.append('%s%d' % (op['op'], op['li']))
            bump(res['probes'], 'H1_checked')
        res['nontrivial'] = len(scen['ops']) >= 3
    except Violation as v:
        settle(res, v, None)
    res['signature'] = sorted(sigs)
    res['digest'] = log.digest()
    return res


def execute_laminate_isolated(scen):
    """World L looks at process-global state (mutable default arguments), so every scenario runs in an interpreter of
    its own: the outcome is then a function of the scenario alone, whatever this worker executed before."""
    import json
    import subprocess
    import sys
    r = subprocess.run([sys.executable, '-m', 'sim.lamchild'], input=json.dumps(scen).encode(), capture_output=True, timeout=300)
    if r.returncode != 0:
        raise HarnessError('laminate child failed: ' + r.stderr.decode()[-500:])
    out = json.loads(r.stdout.decode().strip().splitlines()[-1])
    res = Result.new(PROP, scen.get('seed'))
    res.update(out)
    return res


def execute(scen):
    import os
    import numpy as np
    if scen.get('kind') == 'laminate':
        return execute_laminate_isolated(scen)
    res = Result.new(PROP, scen.get('seed'))
    res['components'] = COMPONENTS
    log = EventLog()
    kind = scen['kind']
    d = scen['defn']
    seam = KeySeam(scen['seed'])
    seam.install()
    sigs = set()
    prev_ops = []
    try:
        def_inputs = []
        # references first, while the process has seen nothing of this scenario: the same operation alone on a fresh
        # object, one thread (up to the first re-definition; after one they are rebuilt from the new definition)
        refs = {}
        for op in scen['ops']:
            if op['op'] == 'redef':
                break
            if op['op'] in NO_COMPARE:
                continue
            key = op_key(kind, op)
            if key not in refs:
                # (the reference is always computed with the log switched off)
                refs[key] = outcome_of(kind, build(kind, d), dict(op, loud=False), Env(scen, None), d, seam, key)
                if refs[key][0] == 'raises':
                    bump(res['exceptions'], 'fresh_%s_%s' % (op['op'], refs[key][1]))
        subject = build(kind, d, def_inputs)
        env_s = Env(scen, None)
        seen = {}
        held = []
        ni_changed = False
        for idx, op in enumerate(scen['ops']):
            key = op_key(kind, op)
            name = op['op']
            res['steps'] += 1
            if name == 'twin':
                var = run_twin(kind, d, op)
                bump(res['probes'], 'twin_%s_%s' % (kind, var))
                log.add(idx, key, 'twin')
                prev_ops.append(name)
                continue
            if name == 'save_load':
                if kind in ('panel', 'shell', 'bay') and (op.get('fault') or {}).get('seam') == 'disk':
                    # the save fails half-way: the live object goes on being used and must answer as before; what is on disk
                    # is either refused by load() or - if it loads - an object that answers as before, too
                    try:
                        save_with_disk_fault(kind, subject, op['fault'])
                        bump(res['probes'], 'save_survived_disk_fault')
                    except _DiskFault:
                        bump(res['faults'], 'disk_%s_during_save' % op['fault']['kind'])
                    except Exception as e:
                        bump(res['exceptions'], 'save_disk_fault_' + type(e).__name__)
                elif kind in ('panel', 'shell', 'bay') and op.get('nl'):
                    # a checkpoint: the object is saved and the caller goes on with the live object
                    try:
                        subject.name = 'subject'
                        subject.save()
                        bump(res['probes'], 'save_then_continue_with_live_object')
                    except Exception as e:
                        bump(res['exceptions'], 'save_' + type(e).__name__)
                elif kind in ('panel', 'shell', 'bay'):
                    try:
                        subject = save_load(kind, subject)
                        bump(res['probes'], 'save_load_roundtrip')
                    except Exception as e:
                        bump(res['exceptions'], 'save_load_' + type(e).__name__)
                log.add(idx, key, 'save_load')
                prev_ops.append(name)
                continue
            if name == 'redef':
                # the client re-defines one attribute of a Panel (a class that advertises no caches): from here on the
                # reference is a fresh object built from the NEW definition
                import copy as _copy
                if kind == 'panel':
                    d = _copy.deepcopy(d)
                    apply_redefinition(subject, d, op)
                    refs = {}
                    seen = {}
                    held = []
                    bump(res['probes'], 'redefinition_' + op['attr'])
                elif kind in ('assembly', 'bay') and op['attr'] in ('Nxx', 'Nyy', 'mu'):
                    # loads and density of the member panels are read at call time (no cache may depend on them)
                    d = _copy.deepcopy(d)
                    val = (-op['val'] * 10.0) if op['attr'] != 'mu' else 1.3e3 * op['val']
                    if kind == 'assembly':
                        for pd, pobj in zip(d['panels'], subject.panels):
                            pd[op['attr']] = val
                            setattr(pobj, op['attr'], val)
                    else:
                        if op['attr'] == 'mu':
                            d['panel_mu'] = val
                        else:
                            d['panel_' + op['attr']] = val
                        for pobj in subject.panels:
                            setattr(pobj, op['attr'], val)
                    refs = {}
                    seen = {}
                    held = []
                    bump(res['probes'], 'redefinition_%s_%s' % (kind, op['attr']))
                log.add(idx, key, 'redef')
                prev_ops.append(name)
                continue
            seam.last_raw = None
            out = outcome_of(kind, subject, op, env_s, d, seam, key, fault=op.get('fault'))
            raw_s = seam.last_raw
            for hkey, hidx, hval, hdig in held:
                # what an earlier call handed out (arrays are kept by reference, not copied) must still be what it was
                if digest_of(canon(hval)) != hdig:
                    raise Violation('H7-returned-result-altered', {'kind': kind, 'op': key, 'index': idx, 'earlier_op': hkey,
                                                                   'earlier_index': hidx, 'history': prev_ops[-6:],
                                                                   'why': 'a result returned by an earlier call was modified by this call'}, step=idx)
            what = env_s.check_inputs()
            for arr_, sha_, what_ in def_inputs:
                if _input_digest(arr_) != sha_:
                    what = what or what_
            if what:
                raise Violation('H3-inputs', {'op': key, 'index': idx, 'why': 'caller-supplied %s was modified' % what,
                                              'history': prev_ops[-6:]}, step=idx)
            if name == 'set_ni_cores':
                ni_changed = True
            if name in NO_COMPARE:
                log.add(idx, key, 'cfg')
                prev_ops.append(name)
                continue
            if seam.fired:
                # the operation was interrupted by an injected solver failure: its own outcome is not compared,
                # but everything the object returns afterwards still has to equal the fresh-object outcome
                bump(res['faults'], '%s_%s_in_%s' % ('failure' if seam.fired.startswith('alloc') else 'solver_failure', seam.fired, name))
                log.add(idx, key, 'interrupted', out[0])
                if out[0] == 'value':
                    bump(res['probes'], 'injected_failure_absorbed_by_fallback')
                prev_ops.append(name + '!')
                continue
            # reference: the same operation alone on a fresh object, one thread
            if key not in refs:
                fresh = build(kind, d)
                env_r = Env(scen, None)
                refs[key] = outcome_of(kind, fresh, dict(op, loud=False), env_r, d, seam, key)
                if refs[key][0] == 'raises':
                    bump(res['exceptions'], 'fresh_%s_%s' % (name, refs[key][1]))
                if not prev_ops:
                    bump(res['probes'], 'first_call_%s_%s' % (kind, name))
            ref = refs[key]
            bump(res['probes'], '%s_%s_%s' % ('ret' if out[0] == 'value' else 'exc', kind, name))
            log.add(idx, key, out[0], digest_of(out[1]) if out[0] == 'value' else out[1])
            ctx = {'kind': kind, 'op': key, 'index': idx, 'history': [o for o in prev_ops][-8:], 'first_ops': prev_ops[:2]}
            if out[0] != ref[0]:
                v = Violation('H1-first-call', dict(ctx, subject=out[0], fresh=ref[0],
                                                    subject_exc=out[2] if out[0] == 'raises' else None,
                                                    fresh_exc=ref[2] if ref[0] == 'raises' else None,
                                                    why='operation %s on the fresh object but %s after this history' % (
                                                        'raises' if ref[0] == 'raises' else 'returns', 'returns' if out[0] == 'value' else 'raises')),
                              step=idx)
                v.known_id = known_id_for(kind, key, out, ref, prev_ops, d)
                raise v
            if out[0] == 'value':
                rtol = 0.0
                if kind == 'shell' and ni_changed and name in THREAD_SENSITIVE_SHELL:
                    rtol = 1e-9
                ident, close, where = compare(out[1], ref[1], rtol if rtol else 0.0)
                path_flip = False
                if rtol and name == 'static_nl' and not ident and not close:
                    # with another thread count the residuals differ in the last bits; a step on the edge of the acceptance or
                    # divergence test may then be taken or cut back, and the two runs follow different increment histories.
                    # That is rounding, not a dependence on the thread count: no verdict on this operation (counted)
                    try:
                        inc_s, inc_r = [float(np.asarray(x)) for x in out[1][0]], [float(np.asarray(x)) for x in ref[1][0]]
                        path_flip = inc_s != inc_r
                    except Exception:
                        path_flip = False
                if path_flip:
                    # ... provided it IS the thread count: a fresh object with the subject's thread count must follow the
                    # subject's history; anything else is a dependence on the call history after all
                    fresh_t = build(kind, d)
                    fresh_t.ni_num_cores = subject.ni_num_cores
                    out_t = outcome_of(kind, fresh_t, op, Env(scen, None), d, seam, key)
                    same_t = out_t[0] == 'value' and compare(out[1], out_t[1], 1e-9)[1]
                    if not same_t:
                        v = Violation('H1-same-outcome', dict(ctx, where=str(where)[:300],
                                                              why='value differs from the value on a fresh object (also from a fresh object '
                                                                  'with the same number of integration threads)'), step=idx)
                        v.known_id = known_id_for(kind, key, out, ref, prev_ops, d)
                        raise v
                if path_flip:
                    bump(res['probes'], 'nl_increment_history_differs_between_thread_counts(no verdict)')
                    for po in set(prev_ops):
                        sigs.add('%s:%s>%s' % (kind, po, name))
                    prev_ops.append(name)
                    log.add(idx, key, 'path-flip')
                    continue
                if not ident and not (rtol and close):
                    v = Violation('H1-same-outcome', dict(ctx, where=str(where)[:300],
                                                          why='value differs from the value on a fresh object'), step=idx)
                    v.known_id = known_id_for(kind, key, out, ref, prev_ops, d)
                    raise v
                if not ident:
                    bump(res['probes'], 'rounding_only')
                if key in seen:
                    i2, c2, w2 = compare(out[1], seen[key], rtol if rtol else 0.0)
                    if not i2 and not (rtol and c2):
                        raise Violation('H2-repeat', dict(ctx, where=str(w2)[:300], why='same operation twice gives different values'), step=idx)
                    bump(res['probes'], 'H2_repeat_checked')
                seen[key] = out[1]
                # the objects themselves (lists, arrays, sparse matrices) are kept, exactly as a caller would keep them
                held.append((key, idx, raw_s, digest_of(out[1])))
                if len(held) > 8:
                    held.pop(0)
                bump(res['probes'], 'H1_checked')
            else:
                bump(res['probes'], 'consistent_raise')
            for po in set(prev_ops):
                sigs.add('%s:%s>%s' % (kind, po, name))
            prev_ops.append(name)
        res['nontrivial'] = len(scen['ops']) >= 3
        res['signature'] = sorted(sigs)
    except Violation as v:
        settle(res, v, getattr(v, 'known_id', None))
        res['signature'] = sorted(sigs)
    finally:
        seam.remove()
        try:
            import matplotlib.pyplot as plt
            plt.close('all')
        except Exception:
            pass
        if os.path.basename(os.getcwd()).startswith('verifw-'):   # only ever clean a private worker directory
            for fn in os.listdir('.'):
                try:
                    os.unlink(fn)
                except OSError:
                    pass
    res['digest'] = log.digest()
    return res


def known_id_for(kind, key, out, ref, prev_ops, d):
    """Narrow matchers of the committed known findings (see KNOWN_FINDINGS.json)."""
    name = key.split('/')[0]
    prev_ops = [o.rstrip('!') for o in prev_ops]
    if kind == 'bay' and out[0] == 'raises' and out[1] == 'AssertionError' and (name == 'stiff_k0' or 'stiff_k0' in prev_ops):
        return 'C20-stiffener-direct-call'
    if kind == 'shell' and d.get('Fc') is None and d.get('Nxxtop') is None and (name in ('lb', 'eigen') or 'lb' in prev_ops or 'eigen' in prev_ops):
        return 'C20-conecyl-lb-default-load'
    return None
