"""C17 - cone/cylinder non-linear tangent is the Jacobian of the internal force, for any thread count.

System under simulation: ConeCyl._calc_NL_matrices/calc_kT/calc_fint/calc_k0 with the real non-linear
kernels of every model that advertises non-linear static analysis, the real `integratev` OpenMP
integration and imperfection fields.  The simulator owns the integration partition (ni_num_cores incl.
counts that do not divide the number of integration points -> remainder pass; OpenMP environment of the
worker), the integration rule and grid, the order of evaluation calls (fresh vs cached linear matrices)
and the visited states.  The Jacobian relation is an in-run invariant on the visited states.
"""
from .core import Result, Violation, HarnessError, EventLog, bump, rng_for, sha_bytes, settle

PROP = 'C17'
TIMEOUT = 900
BATCHES = {
    'quick': [('N', 900)],
    'thorough': [('N', 60000)],
}
CHUNK = {'N': 10}
COST = {'N': 1}
RULE = ('scenario = (model among the 12 non-linear-capable ones, cylinder or cone angle, laminate/isotropic, series orders, '
        'integration rule trapz2d/simps2d and grid, edge penalties, imperfection on/off, state amplitude and direction seeds, '
        'list of integration thread counts 1..8 plus counts exceeding/not dividing the number of points, order of the '
        'evaluation calls). Non-trivial = a thread count other than 1 was used whose count does not divide the number of '
        'integration points (remainder branch) or an imperfection is present or the linear matrices were reused from cache; '
        'distinct = distinct (model, cyl/cone, rule, threads, npts mod threads, imperfection?, first call, OpenMP env).')
COMPONENTS = {
    'real': ['ConeCyl.calc_kT/_calc_NL_matrices/calc_fint/calc_k0/calc_fext/calc_full_c/exclude_dofs_matrix',
             'non-linear kernels calc_k0L/calc_kLL/calc_kG/calc_fint_0L_L0_LL of all 12 models', 'integrate.integratev (OpenMP)',
             'imperfections.mgi', 'linear kernels (fk0, fk0_cyl, k0edges)'],
    'stub': ['nothing in the code under test; the simulator sets ni_num_cores, ni_method, nx, nt and the OpenMP environment'],
}
ASSUMPTIONS = [
    'the Jacobian relation is decided on the states the simulation visits (amplitudes up to a few wall thicknesses), not for all states',
    'finite differences use Richardson extrapolation of central differences (exact for the cubic internal force) with a rounding bound of 256*eps*max|fint|/h',
    'thread interleaving inside integratev is not controlled; the partition is (thread count, remainder pass, OpenMP thread limit)',
    'models whose kernels fail the Jacobian relation on the unchanged tree are known findings keyed by (J5, model); J1-J4, J6, J7 stay enforced for them',
    'J3/J4/J6 (zero state, small amplitudes, tangent at zero) are demanded for the perfect shell without prescribed torsion/asymmetry amplitudes only',
]

NL_MODELS = ['clpt_donnell_bc1', 'clpt_donnell_bc2', 'iso_clpt_donnell_bc2', 'clpt_donnell_bc3', 'iso_clpt_donnell_bc3',
             'clpt_donnell_bc4', 'clpt_sanders_bc1', 'clpt_sanders_bc2', 'clpt_sanders_bc3', 'clpt_sanders_bc4',
             'fsdt_donnell_bcn', 'fsdt_donnell_bc1']
STACKS = [[0, 0, 19, -19, 37, -37, 45, -45, 51, -51], [45, -45, -45, 45], [0, 90, 90, 0], [30, -30, 0, 60, 15]]


def generate(seed, batch):
    rng = rng_for(seed, 'C17', batch)
    scen = {'prop': PROP, 'seed': seed, 'batch': batch}
    model = rng.choice(NL_MODELS)
    fsdt = 'fsdt' in model
    scen['shell'] = {
        'model': model, 'alphadeg': rng.choice([0.0, 0.0, rng.uniform(2.0, 40.0)]),
        'm1': rng.randint(1, 4), 'm2': rng.randint(1, 3 if fsdt else 4), 'n2': rng.randint(1, 3 if fsdt else 4),
        'nx': rng.choice([6, 9, 12, 15, 20, 25, rng.randint(5, 30)]), 'nt': rng.choice([8, 11, 16, 21, 30, rng.randint(6, 36)]),
        'method': rng.choice(['trapz2d', 'simps2d']),
        'stack': rng.choice(STACKS), 'plyt': rng.choice([0.125, 0.2]), 'r2': rng.uniform(100., 400.), 'H': rng.uniform(150., 800.),
        'penalty': rng.choice([1e8, 1e8, 1e5, 1e3]), 'kphix': rng.choice([0.0, 0.0, 1e5]),
        'E11': 70e3, 'nu': 0.3, 'h': rng.uniform(0.5, 2.0),
        'with_k0L': True, 'with_kLL': True,
    }
    # public switch that zeroes the coupling terms of the laminate matrix: tangent and internal force must use the same matrix
    scen['shell']['force_ortho'] = rng.random() < 0.15
    if scen['shell']['method'] == 'simps2d':
        # Simpson's rule needs odd numbers of points
        scen['shell']['nx'] |= 1
        scen['shell']['nt'] |= 1
    npts = scen['shell']['nx'] * scen['shell']['nt']
    scen['imperfection'] = None
    if rng.random() < 0.3:
        scen['imperfection'] = {'m0': rng.randint(1, 3), 'n0': rng.randint(1, 4), 'amp': 10 ** rng.uniform(-3, -0.3),
                                'seed': rng.getrandbits(32)}
    scen['state'] = {'seed': rng.getrandbits(32), 'amp': 10 ** rng.uniform(-2, 0.5)}
    scen['dir_seed'] = rng.getrandbits(32)
    pool = [1, 2, 3, 4, 5, 6, 7, 8, 8, 3, 5, 7, npts + 1, max(1, npts - 1), 16]
    scen['threads'] = [rng.choice(pool) for _ in range(rng.randint(2, 4))]
    scen['first'] = rng.choice(['fext', 'k0'])
    scen['order'] = rng.sample(['kT', 'fint', 'k0', 'kT', 'fint'], 5)
    # load level and prescribed (known) amplitudes: torsion angle and load-asymmetry angle, scaled by inc
    scen['inc'] = rng.choice([1.0, 1.0, rng.uniform(0.05, 1.0), rng.uniform(0.05, 1.0), 0.0])    # (0: the unloaded reference level)
    scen['np_scalars'] = rng.random() < 0.3
    # the same shell in another force unit (a power of two, so that the scaling is exact in floating point)
    scen['unit_check'] = rng.choice([None, None, None, None, -70, -40, 30])
    scen['shell']['thetaTdeg'] = rng.choice([0.0, 0.0, rng.uniform(-2.0, 2.0)])
    scen['shell']['betadeg'] = rng.choice([0.0, 0.0, 0.0, rng.uniform(0.05, 1.0)])
    # which rigid-body amplitudes are prescribed: default (torsion + asymmetry), plus shortening, shortening without torsion, ...
    scen['shell']['pdC'] = rng.random() < 0.3
    scen['shell']['pdT'] = rng.random() < 0.75
    scen['shell']['uTM'] = rng.choice([0.0, rng.uniform(-0.5, 0.5)])
    # re-definition between two evaluations at the same state (caches must follow the definition)
    scen['redefine'] = rng.choice([None, None, 'imperfection', 'imperfection_off', 'grid', 'method', 'inc', 'material', 'geometry', 'prescribed', 'prescribed',
                                   'approx_call'])
    scen['redef_fint_first'] = rng.random() < 0.5
    scen['full_vector'] = rng.random() < 0.25
    scen['inplace_fd'] = rng.random() < 0.5
    scen['redef_seed'] = rng.getrandbits(32)
    # transient failure inside one evaluation: the j-th call of a numerical-integration kernel raises (allocation failure of
    # the per-thread buffers, optionally only when more than one thread is requested)
    scen['kernel_fault'] = {'target': rng.choice(['calc_kG', 'calc_k0L', 'calc_kLL', 'calc_fint_0L_L0_LL']),
                            'call': rng.choice([1, 1, 2]), 'kind': rng.choice(['MemoryError', 'MemoryError', 'RuntimeError', 'ValueError']),
                            'only_threads_gt1': rng.random() < 0.5, 'op': rng.choice(['kT', 'kT', 'fint'])} if rng.random() < 0.25 else None
    return scen


def shrink_candidates(scen):
    import copy
    if len(scen['threads']) > 1:
        for i in range(len(scen['threads'])):
            c = copy.deepcopy(scen)
            del c['threads'][i]
            yield c
    for i, t in enumerate(scen['threads']):
        for t2 in (1, 2, 3):
            if t2 < t:
                c = copy.deepcopy(scen)
                c['threads'][i] = t2
                yield c
    if scen['imperfection']:
        c = copy.deepcopy(scen)
        c['imperfection'] = None
        yield c
    if scen.get('redefine'):
        c = copy.deepcopy(scen)
        c['redefine'] = None
        yield c
    if scen.get('full_vector'):
        c = copy.deepcopy(scen)
        c['full_vector'] = False
        yield c
    if scen.get('kernel_fault'):
        c = copy.deepcopy(scen)
        c['kernel_fault'] = None
        yield c
    if scen.get('inplace_fd'):
        c = copy.deepcopy(scen)
        c['inplace_fd'] = False
        yield c
    if scen.get('inc', 1.0) != 1.0:
        c = copy.deepcopy(scen)
        c['inc'] = 1.0
        yield c
    for key, val in (('pdC', False), ('pdT', True)):
        if scen['shell'].get(key, val) != val:
            c = copy.deepcopy(scen)
            c['shell'][key] = val
            yield c
    for key in ('thetaTdeg', 'betadeg', 'uTM'):
        if scen['shell'].get(key):
            c = copy.deepcopy(scen)
            c['shell'][key] = 0.0
            yield c
    sh = scen['shell']
    for key in ('m1', 'm2', 'n2'):
        if sh[key] > 1:
            c = copy.deepcopy(scen)
            c['shell'][key] = sh[key] - 1
            yield c
    for key, val in (('alphadeg', 0.0), ('method', 'trapz2d'), ('penalty', 1e3), ('kphix', 0.0)):
        if sh[key] != val:
            c = copy.deepcopy(scen)
            c['shell'][key] = val
            yield c
    for key in ('nx', 'nt'):
        if sh[key] > 7:
            c = copy.deepcopy(scen)
            c['shell'][key] = max(5, sh[key] // 2) | (1 if sh['method'] == 'simps2d' else 0)
            yield c
    if len(scen['order']) > 1:
        for i in range(len(scen['order'])):
            c = copy.deepcopy(scen)
            del c['order'][i]
            yield c


def build_shell(scen):
    import numpy as np
    from compmech.conecyl import ConeCyl
    sh = scen['shell']
    cc = ConeCyl()
    cc.model = sh['model']
    cc.m1, cc.m2, cc.n2 = sh['m1'], sh['m2'], sh['n2']
    cc.nx, cc.nt = sh['nx'], sh['nt']
    cc.ni_method = sh['method']
    cc.ni_num_cores = 1
    cc.alphadeg = sh['alphadeg']
    if sh['model'].startswith('iso_'):
        cc.E11, cc.nu, cc.h = sh['E11'] * sh.get('unit', 1.0), sh['nu'], sh['h']
        cc.laminaprop = None
    else:
        u_ = sh.get('unit', 1.0)       # force unit: every stiffness-like quantity carries this factor
        cc.laminaprop = (123.55e3 * u_, 8.708e3 * u_, 0.319, 5.695e3 * u_, 5.695e3 * u_, 5.695e3 * u_)
        cc.stack = list(sh['stack'])
        cc.plyt = sh['plyt']
    if sh.get('force_ortho'):
        cc.force_orthotropic_laminate = True
    cc.r2 = sh['r2']
    cc.H = sh['H']
    pen = sh['penalty'] * sh.get('unit', 1.0)
    cc.kuBot = cc.kvBot = cc.kwBot = cc.kuTop = cc.kvTop = cc.kwTop = pen
    cc.kphixBot = cc.kphixTop = sh['kphix'] * sh.get('unit', 1.0)
    cc.with_k0L = sh['with_k0L']
    cc.with_kLL = sh['with_kLL']
    cc.thetaTdeg = sh.get('thetaTdeg', 0.0)
    cc.betadeg = sh.get('betadeg', 0.0)
    cc.pdC = sh.get('pdC', False)
    cc.pdT = sh.get('pdT', True)
    cc.uTM = sh.get('uTM', 0.0)
    cc.forces.append([cc.H / 2., 0., 0., 0., -10.])
    imp = scen['imperfection']
    if imp:
        rng = np.random.Generator(np.random.PCG64([imp['seed'], 5]))
        cc.m0, cc.n0 = imp['m0'], imp['n0']
        cc.funcnum = 2
        cc.c0 = np.ascontiguousarray(rng.standard_normal(2 * imp['m0'] * imp['n0']) * imp['amp'])
    return cc


def execute(scen):
    import os
    import numpy as np
    res = Result.new(PROP, scen.get('seed'))
    res['components'] = COMPONENTS
    log = EventLog()
    sh = scen['shell']
    model = sh['model']
    ompenv = 'limit%s' % os.environ.get('OMP_THREAD_LIMIT', '-') + ('dyn' if os.environ.get('OMP_DYNAMIC') else '')
    try:
        cc = build_shell(scen)
        ctx = {'model': model, 'alphadeg': sh['alphadeg'], 'method': sh['method'], 'nx': sh['nx'], 'nt': sh['nt'],
               'imperfection': bool(scen['imperfection'])}
        # bring the object to a defined state (first-call behaviour on fresh objects is C20)
        if scen['first'] == 'fext':
            cc.calc_fext(silent=True)
        else:
            cc.calc_k0(silent=True)
        size = cc.get_size()
        nu = size - len(cc.excluded_dofs)
        srng = np.random.Generator(np.random.PCG64([scen['state']['seed'], 7]))
        c = np.ascontiguousarray(srng.standard_normal(nu) * scen['state']['amp'])
        drng = np.random.Generator(np.random.PCG64([scen['dir_seed'], 9]))
        d = drng.standard_normal(nu)
        d /= np.linalg.norm(d)
        csha = sha_bytes(c.tobytes())
        npts = sh['nx'] * sh['nt']

        held = []

        def hold(m):
            # tangents handed out earlier are kept by reference; they must still be what they were later on
            from scipy.sparse import issparse
            if issparse(m) and hasattr(m, 'data'):
                held.append((m, sha_bytes(np.ascontiguousarray(m.data).tobytes()), sha_bytes(np.ascontiguousarray(m.indices).tobytes()), len(held)))
            return m

        def check_held(where):
            for m, sd, si, n in held:
                if sha_bytes(np.ascontiguousarray(m.data).tobytes()) != sd or sha_bytes(np.ascontiguousarray(m.indices).tobytes()) != si:
                    raise Violation('J9-returned-tangent-altered', dict(ctx, which=n, where=where,
                                                                        why='a tangent matrix returned by an earlier calc_kT call was modified by a later call'))

        inc_arg = np.float64(scen['inc']) if scen.get('np_scalars') else scen['inc']

        def kT_of(x):
            return hold(cc.calc_kT(x, inc=inc_arg, silent=True)).toarray()

        def fint_of(x):
            return np.array(cc.calc_fint(x, inc=inc_arg, silent=True), dtype=float)

        # ---- J1: thread counts (and call order / caching)
        base = {}
        for ti, t in enumerate(scen['threads']):
            cc.ni_num_cores = t
            vals = {}
            for op in (scen['order'] if ti == 0 else ['kT', 'fint']):
                if op == 'kT':
                    vals['kT'] = kT_of(c)
                elif op == 'fint':
                    vals['fint'] = fint_of(c)
                else:
                    vals['k0'] = cc.calc_k0(silent=True).toarray()
                    bump(res['probes'], 'linear_matrices_reused_from_cache')
                res['steps'] += 1
            for key in ('kT', 'fint'):
                if key not in vals:
                    vals[key] = kT_of(c) if key == 'kT' else fint_of(c)
            # same thread count again: bitwise identical (partition decides, not timing)
            again = fint_of(c)
            if again.tobytes() != vals['fint'].tobytes():
                raise Violation('J1-threads', dict(ctx, threads=t, why='two evaluations of fint with the same thread count differ',
                                                   maxdiff=float(np.abs(again - vals['fint']).max())))
            log.add('eval', t, sha_bytes(vals['kT'].tobytes()), sha_bytes(vals['fint'].tobytes()))
            if not base:
                base = vals
                base_t = t
            else:
                for key in ('kT', 'fint'):
                    a, b = vals[key], base[key]
                    scale = np.abs(b).max()
                    diff = np.abs(a - b).max()
                    if not (diff <= 1e-10 * scale):
                        raise Violation('J1-threads', dict(ctx, quantity=key, threads=t, base_threads=base_t, maxdiff=float(diff),
                                                           scale=float(scale), npts=npts,
                                                           why='result depends on the number of integration threads'))
                    if diff > 0:
                        bump(res['probes'], 'rounding_level_difference_between_thread_counts')
                bump(res['probes'], 'J1_checked')
            if t > 1 and npts % t:
                bump(res['probes'], 'remainder_pass')
            if t > npts:
                bump(res['probes'], 'threads_exceed_points')
        if sha_bytes(c.tobytes()) != csha:
            raise Violation('J0-inputs', dict(ctx, why='the state vector passed in was modified'))
        cc.ni_num_cores = scen['threads'][0]
        kT = base['kT']
        fint_c = base['fint']
        k0 = cc.calc_k0(silent=True).toarray()
        # ---- J2 symmetry
        asym = np.abs(kT - kT.T).max()
        if not (asym <= 1e-12 * np.abs(kT).max()):
            raise Violation('J2-symmetry', dict(ctx, asym=float(asym), scale=float(np.abs(kT).max())))
        prescribed = bool((sh.get('thetaTdeg') and sh.get('pdT', True)) or sh.get('betadeg') or (sh.get('pdC') and sh.get('uTM')))
        bump(res['probes'], 'excluded_dofs_%s' % ''.join(str(x) for x in cc.excluded_dofs))
        perfect = scen['imperfection'] is None and not prescribed
        zero = np.zeros(nu)
        if prescribed:
            bump(res['probes'], 'prescribed_amplitudes_nonzero')
        if scen['inc'] != 1.0:
            bump(res['probes'], 'load_level_below_1')
        if perfect:
            # ---- J3 fint(0) = 0, J6 kT(0) = k0
            f0 = fint_of(zero)
            if not (np.abs(f0).max() <= 1e-12 * max(np.abs(fint_c).max(), 1e-300)):
                raise Violation('J3-zero-state', dict(ctx, max_fint0=float(np.abs(f0).max())))
            kT0 = kT_of(zero)
            if not (np.abs(kT0 - k0).max() <= 1e-12 * np.abs(k0).max()):
                raise Violation('J6-tangent-at-zero', dict(ctx, maxdiff=float(np.abs(kT0 - k0).max()), scale=float(np.abs(k0).max())))
            # ---- J4: fint(eps c) - k0 eps c = eps^2 q + eps^3 t  (cubic structure => vanishes like eps^2)
            def N(eps):
                f = fint_of(eps * c)
                return f - k0.dot(eps * c), np.abs(f).max()
            N1, s1 = N(1.0)
            N2, s2 = N(0.5)
            N4, s4 = N(0.25)
            q = (8 * N2 - N1) / 1.0      # N1 = q + t ; N2 = q/4 + t/8  -> q = 8 N2 - N1 ... (see below)
            # solve: N1 = q + t, 8*N2 = 2q + t  -> q = 8*N2 - N1, t = 2*N1 - 8*N2
            t3 = 2 * N1 - 8 * N2
            pred = q / 16.0 + t3 / 64.0
            noise = 256 * np.finfo(float).eps * max(s1, s2, s4) * 16
            err = np.abs(N4 - pred).max()
            if not (err <= 1e-7 * np.abs(N1).max() + noise):
                raise Violation('J4-small-amplitudes', dict(ctx, err=float(err), scale=float(np.abs(N1).max()), noise=float(noise),
                                                            why='fint(eps*c) - k0*eps*c is not of the form eps^2*q + eps^3*t'))
            bump(res['probes'], 'J3_J4_J6_checked')
        # ---- J5 directional derivative, Richardson-extrapolated central differences (exact for a cubic)
        h = 0.1 * max(scen['state']['amp'], 1e-3)

        def j5_at(state, kT_state, label):
            def cdl(hh):
                if scen.get('inplace_fd'):
                    # the classic finite-difference loop: ONE amplitude array, modified in place between the calls
                    buf = np.array(state, dtype=float)
                    buf += hh * d
                    fp = fint_of(buf)
                    buf -= 2 * hh * d
                    fm = fint_of(buf)
                else:
                    fp = fint_of(state + hh * d)
                    fm = fint_of(state - hh * d)
                return (fp - fm) / (2 * hh), max(np.abs(fp).max(), np.abs(fm).max())
            D1, s1 = cdl(h)
            D2, s2 = cdl(h / 2)
            fd = (4 * D2 - D1) / 3.0
            lin = k0.dot(d)
            lhs = fd - lin
            rhs = kT_state.dot(d) - lin
            noise = 256 * np.finfo(float).eps * max(s1, s2) / (h / 2) * 3
            err = np.abs(lhs - rhs).max()
            scale = max(np.abs(rhs).max(), np.abs(lhs).max())
            res['steps'] += 4
            if not (err <= 1e-6 * scale + noise):
                v = Violation('J5-jacobian', dict(ctx, state=label, err=float(err), scale=float(scale), noise=float(noise),
                                                  rel=float(err / max(scale, 1e-300)),
                                                  why='tangent times direction differs from the directional derivative of fint (non-linear part)'))
                v.known_id = 'C17-J5-' + model
                raise v
            return scale, noise
        scale, noise = j5_at(c, kT, 'random state')
        # the undeformed free amplitudes are a state too (with an imperfection or prescribed amplitudes the
        # non-linear part of the tangent does not vanish there)
        j5_at(zero, kT_of(zero), 'zero state')
        check_held('after the Jacobian evaluations')
        bump(res['probes'], 'J5_checked')
        # ---- J8: the same state handed over as a FULL amplitude vector (prescribed entries included, scaled by inc
        #      inside) gives the same tangent / internal force, repeatably, and the caller's vector is not touched
        if scen.get('full_vector'):
            ck = np.array(cc.excluded_dofs_ck, dtype=float)
            cfull = np.zeros(size)
            mask = np.ones(size, dtype=bool)
            mask[list(cc.excluded_dofs)] = False
            cfull[mask] = c
            cfull[list(cc.excluded_dofs)] = ck
            cfull = np.ascontiguousarray(cfull)
            fsha = sha_bytes(cfull.tobytes())
            inc1 = scen['inc']
            kT_f = cc.calc_kT(cfull, inc=inc1, silent=True).toarray()
            f_f1 = np.array(cc.calc_fint(cfull, inc=inc1, silent=True), dtype=float)
            f_f2 = np.array(cc.calc_fint(cfull, inc=inc1, silent=True), dtype=float)
            if sha_bytes(cfull.tobytes()) != fsha:
                raise Violation('J0-inputs', dict(ctx, why='a full-size amplitude vector passed in was modified (prescribed entries rescaled in place)'))
            if f_f1.tobytes() != f_f2.tobytes():
                raise Violation('J8-full-vector', dict(ctx, why='two evaluations of fint for the same full-size vector differ'))
            for nm, a, b in (('kT', kT_f, kT), ('fint', f_f1, fint_c)):
                sc = np.abs(b).max()
                if not (np.abs(a - b).max() <= 1e-10 * sc):
                    raise Violation('J8-full-vector', dict(ctx, quantity=nm, maxdiff=float(np.abs(a - b).max()), scale=float(sc),
                                                           why='full-size and reduced amplitude vectors of the same state give different results'))
            bump(res['probes'], 'J8_full_vector_checked')
            res['steps'] += 3
            # ... and a full-size vector is a state of its own: whatever its prescribed entries are (a vector saved from
            # another run, another load case), tangent and internal force are evaluated at THAT state
            frng = np.random.Generator(np.random.PCG64([scen['seed'] & 0xFFFFFFFF, 23]))
            cfree = cfull.copy()
            exc = list(cc.excluded_dofs)
            cfree[exc] = ck + frng.standard_normal(len(exc)) * 0.02
            dfull = np.zeros(size)
            dfull[mask] = d
            kT_free = cc.calc_kT(cfree, inc=inc1, silent=True).toarray()

            def cdf(hh):
                fp = np.array(cc.calc_fint(cfree + hh * dfull, inc=inc1, silent=True), dtype=float)
                fm = np.array(cc.calc_fint(cfree - hh * dfull, inc=inc1, silent=True), dtype=float)
                return (fp - fm) / (2 * hh), max(np.abs(fp).max(), np.abs(fm).max())
            F1, u1 = cdf(h)
            F2, u2 = cdf(h / 2)
            fdf = (4 * F2 - F1) / 3.0
            linf = k0.dot(d)
            lhsf = fdf - linf
            rhsf = kT_free.dot(d) - linf
            noisef = 256 * np.finfo(float).eps * max(u1, u2) / (h / 2) * 3
            errf = np.abs(lhsf - rhsf).max()
            scalef = max(np.abs(rhsf).max(), np.abs(lhsf).max())
            if not (errf <= 1e-6 * scalef + noisef):
                v = Violation('J8-full-vector', dict(ctx, err=float(errf), scale=float(scalef), noise=float(noisef),
                                                     why='for a full-size vector with its own prescribed entries the tangent is not the '
                                                         'Jacobian of the internal force (they are evaluated at different states)'))
                v.known_id = 'C17-J5-' + model
                raise v
            bump(res['probes'], 'J8_free_full_vector_checked')
            res['steps'] += 5
        # ---- J11: the same shell with every stiffness-like input multiplied by u = 2^k (another force unit): tangent and
        #      internal force are multiplied by u - nothing in them may depend on the absolute magnitude of the numbers
        if scen.get('unit_check') is not None:
            import copy as _cp
            u = 2.0 ** scen['unit_check']
            scen_u = _cp.deepcopy(scen)
            scen_u['shell']['unit'] = sh.get('unit', 1.0) * u
            cu_ = build_shell(scen_u)
            cu_.ni_num_cores = cc.ni_num_cores
            cu_.calc_fext(silent=True)
            kT_u = cu_.calc_kT(c, inc=inc_arg, silent=True).toarray()
            f_u = np.array(cu_.calc_fint(c, inc=inc_arg, silent=True), dtype=float)
            for nm, a, b in (('kT', kT_u, kT * u), ('fint', f_u, fint_c * u)):
                scb = np.abs(b).max()
                if not (np.abs(a - b).max() <= 1e-11 * scb):
                    raise Violation('J11-units', dict(ctx, quantity=nm, unit_factor='2^%d' % scen['unit_check'], maxdiff=float(np.abs(a - b).max()),
                                                      scale=float(scb), why='the result does not scale with the force unit'))
            bump(res['probes'], 'J11_units_checked')
            res['steps'] += 2
        # ---- J10: the parts the object exposes after an evaluation (kL = linear + displacement-dependent part, kG = initial-
        #      stress part) add up to the tangent it returned, at every state, also when they are read between evaluations
        def parts_consistent(x, label):
            T = kT_of(x)
            kL_, kG_ = cc.kL, cc.kG
            if kL_ is None or kG_ is None:
                return
            A = (kL_ + kG_).toarray()
            keep = np.ones(A.shape[0], dtype=bool)
            keep[list(cc.excluded_dofs)] = False
            A = A[np.ix_(keep, keep)]
            if A.shape != T.shape or not (np.abs(A - T).max() <= 1e-12 * np.abs(T).max()):
                raise Violation('J10-parts', dict(ctx, state=label, maxdiff=float(np.abs(A - T).max()) if A.shape == T.shape else None,
                                                  scale=float(np.abs(T).max()),
                                                  why='kL + kG of the object do not add up to the tangent returned for the same state'))
        parts_consistent(c, 'random state')
        parts_consistent(np.ascontiguousarray(0.6 * c - 0.03 * scen['state']['amp'] * d), 'second state')
        parts_consistent(c, 'random state again')
        bump(res['probes'], 'J10_parts_checked')
        res['steps'] += 3
        # ---- JF: a kernel call fails once in the middle of an evaluation at another state.  Whatever that evaluation does
        #      (raise, or recover and return), (a) a returned tangent is still the symmetric fault-free tangent of that state,
        #      and (b) the object is not left in a state in which later evaluations return something else than before
        kf = scen.get('kernel_fault')
        if kf:
            from compmech.conecyl import modelDB as _mdb
            mods = [_mdb.db[model]['non-linear']]
            if model.startswith('iso_') and _mdb.db.get(model[4:], {}).get('non-linear') is not None:
                mods.append(_mdb.db[model[4:]]['non-linear'])
            counter = {'n': 0, 'fired': 0}
            patched = []

            class _KernelFault(Exception):
                pass
            exc_cls = type('_KernelFault' + kf['kind'], (_KernelFault, {'MemoryError': MemoryError, 'RuntimeError': RuntimeError,
                                                                         'ValueError': ValueError}[kf['kind']]), {})

            def wrap(real):
                def w(*a, **kw):
                    counter['n'] += 1
                    if counter['n'] == kf['call'] and not counter['fired'] and \
                            (not kf['only_threads_gt1'] or kw.get('num_cores', 1) > 1):
                        counter['fired'] = 1
                        raise exc_cls('injected failure of %s' % kf['target'])
                    return real(*a, **kw)
                return w
            for mo in mods:
                if mo is not None and hasattr(mo, kf['target']):
                    real = getattr(mo, kf['target'])
                    patched.append((mo, real))
                    setattr(mo, kf['target'], wrap(real))
            other = np.ascontiguousarray(0.7 * c + 0.05 * scen['state']['amp'] * d)
            cc.ni_num_cores = max(scen['threads'])
            got_f = None
            try:
                try:
                    if kf['op'] == 'kT':
                        got_f = ('kT', cc.calc_kT(other, inc=scen['inc'], silent=True).toarray())
                    else:
                        got_f = ('fint', np.array(cc.calc_fint(other, inc=scen['inc'], silent=True), dtype=float))
                except _KernelFault:
                    bump(res['faults'], 'kernel_failure_propagated_' + kf['target'])
                except Exception as e:
                    bump(res['exceptions'], 'after_kernel_failure_' + type(e).__name__)
            finally:
                for mo, real in patched:
                    setattr(mo, kf['target'], real)
            if counter['fired']:
                bump(res['faults'], 'kernel_failure_injected_' + kf['kind'])
                if got_f is not None:
                    bump(res['faults'], 'evaluation_recovered_and_returned')
                    clean = kT_of(other) if got_f[0] == 'kT' else fint_of(other)
                    scf = np.abs(clean).max()
                    if not (np.abs(got_f[1] - clean).max() <= 1e-10 * scf):
                        raise Violation('JF-after-failure', dict(ctx, fault=kf, quantity=got_f[0], maxdiff=float(np.abs(got_f[1] - clean).max()),
                                                                 scale=float(scf), why='an evaluation that met a kernel failure returned a result '
                                                                 'that differs from the fault-free result of the same state'))
                cc.ni_num_cores = scen['threads'][0]
                for nm, now, was in (('kT', kT_of(c), kT), ('fint', fint_of(c), fint_c)):
                    scn = np.abs(was).max()
                    if not (np.abs(now - was).max() <= 1e-10 * scn):
                        raise Violation('JF-after-failure', dict(ctx, fault=kf, quantity=nm, maxdiff=float(np.abs(now - was).max()), scale=float(scn),
                                                                 why='after an evaluation was interrupted by a kernel failure, the same object '
                                                                     'returns a different %s for a state evaluated before' % nm))
                bump(res['probes'], 'JF_checked')
            else:
                bump(res['probes'], 'kernel_fault_not_reached')
            cc.ni_num_cores = scen['threads'][0]
            res['steps'] += 4
        # ---- J7: re-definition between evaluations at the same state: the long-lived object must agree with a
        #      freshly built shell of the new definition (no stale cached matrices)
        rd = scen.get('redefine')
        if rd:
            import copy as _copy
            scen2 = _copy.deepcopy(scen)
            rrng = np.random.Generator(np.random.PCG64([scen['redef_seed'], 11]))
            if rd == 'imperfection':
                m0, n0 = int(rrng.integers(1, 4)), int(rrng.integers(1, 4))
                scen2['imperfection'] = {'m0': m0, 'n0': n0, 'amp': float(10 ** rrng.uniform(-2, -0.3)), 'seed': int(rrng.integers(0, 2 ** 31))}
                imp = scen2['imperfection']
                irng = np.random.Generator(np.random.PCG64([imp['seed'], 5]))
                cc.m0, cc.n0, cc.funcnum = imp['m0'], imp['n0'], 2
                cc.c0 = np.ascontiguousarray(irng.standard_normal(2 * imp['m0'] * imp['n0']) * imp['amp'])
            elif rd == 'imperfection_off':
                scen2['imperfection'] = None
                cc.c0 = None
                cc.m0 = cc.n0 = 0      # a shell without imperfection has m0 = n0 = 0 (the kernels index c0 otherwise)
            elif rd == 'grid':
                scen2['shell']['nx'] = sh['nx'] + 2
                scen2['shell']['nt'] = sh['nt'] + 4
                cc.nx, cc.nt = scen2['shell']['nx'], scen2['shell']['nt']
            elif rd == 'method':
                newm = 'simps2d' if sh['method'] == 'trapz2d' else 'trapz2d'
                scen2['shell']['method'] = newm
                if newm == 'simps2d':
                    scen2['shell']['nx'] |= 1
                    scen2['shell']['nt'] |= 1
                cc.ni_method = newm
                cc.nx, cc.nt = scen2['shell']['nx'], scen2['shell']['nt']
            elif rd == 'inc':
                scen2['inc'] = 0.5 if scen['inc'] != 0.5 else 0.25
            elif rd == 'material':
                if sh['model'].startswith('iso_'):
                    scen2['shell']['h'] = sh['h'] * 1.6
                    scen2['shell']['E11'] = sh['E11'] * 0.8
                    cc.h, cc.E11 = scen2['shell']['h'], scen2['shell']['E11']
                else:
                    newstack = [a_ + 15 for a_ in sh['stack']][:max(2, len(sh['stack']) - 1)]
                    scen2['shell']['stack'] = newstack
                    scen2['shell']['plyt'] = sh['plyt'] * 1.5
                    cc.stack = list(newstack)
                    cc.plyt = scen2['shell']['plyt']
                    cc.plyts = []
                    cc.laminaprops = []
            elif rd == 'geometry':
                scen2['shell']['r2'] = sh['r2'] * 1.2
                cc.r2 = scen2['shell']['r2']
                cc.r1 = None
            elif rd == 'approx_call':
                # nothing is re-defined: the client asks once for the non-linear matrices WITHOUT one of the terms (keywords of
                # the matrix routine, listed among the property's observation points) and then goes on as before
                if int(rrng.integers(0, 2)):
                    cc._calc_NL_matrices(c, inc=scen['inc'], with_kLL=False)
                else:
                    cc._calc_NL_matrices(c, inc=scen['inc'], with_k0L=False)
            elif rd == 'prescribed':
                scen2['shell']['thetaTdeg'] = sh.get('thetaTdeg', 0.0) + 1.5
                scen2['shell']['betadeg'] = sh.get('betadeg', 0.0) + 0.4
                scen2['shell']['uTM'] = sh.get('uTM', 0.0) + 0.3
                cc.thetaTdeg, cc.betadeg, cc.uTM = scen2['shell']['thetaTdeg'], scen2['shell']['betadeg'], scen2['shell']['uTM']
            inc2 = scen2['inc']
            if scen.get('redef_fint_first'):
                # the internal force is asked first after the re-definition (nothing else has rebuilt the object yet)
                f_old = np.array(cc.calc_fint(c, inc=inc2, silent=True), dtype=float)
                kT_old = cc.calc_kT(c, inc=inc2, silent=True).toarray()
            else:
                kT_old = cc.calc_kT(c, inc=inc2, silent=True).toarray()
                f_old = np.array(cc.calc_fint(c, inc=inc2, silent=True), dtype=float)
            if rd in ('material', 'geometry'):
                # the linear matrices of a ConeCyl are cached until _clear_matrices(); what C17 demands of the
                # long-lived object after such a re-definition is that tangent and internal force stay consistent
                # with EACH OTHER (Jacobian relation, symmetry), not that they equal a fresh object's
                asym2 = np.abs(kT_old - kT_old.T).max()
                if not (asym2 <= 1e-12 * np.abs(kT_old).max()):
                    raise Violation('J7-redefinition', dict(ctx, redefine=rd, why='tangent not symmetric after re-definition',
                                                            asym=float(asym2)))
                k0_now = cc.calc_k0(silent=True).toarray()

                def cd2(hh):
                    fp = np.array(cc.calc_fint(c + hh * d, inc=inc2, silent=True), dtype=float)
                    fm = np.array(cc.calc_fint(c - hh * d, inc=inc2, silent=True), dtype=float)
                    return (fp - fm) / (2 * hh), max(np.abs(fp).max(), np.abs(fm).max())
                E1, t1 = cd2(h)
                E2, t2 = cd2(h / 2)
                fd2 = (4 * E2 - E1) / 3.0
                lin2 = k0_now.dot(d)
                lhs2 = fd2 - lin2
                rhs2 = kT_old.dot(d) - lin2
                noise2 = 256 * np.finfo(float).eps * max(t1, t2) / (h / 2) * 3
                err2 = np.abs(lhs2 - rhs2).max()
                scale2 = max(np.abs(rhs2).max(), np.abs(lhs2).max())
                if not (err2 <= 1e-6 * scale2 + noise2):
                    v = Violation('J7-redefinition', dict(ctx, redefine=rd, err=float(err2), scale=float(scale2), noise=float(noise2),
                                                          why='after re-defining the %s, tangent and internal force of the long-lived '
                                                              'object are no longer consistent (Jacobian relation)' % rd))
                    v.known_id = 'C17-J5-' + model
                    raise v
            else:
                fresh = build_shell(scen2)
                fresh.ni_num_cores = cc.ni_num_cores
                fresh.calc_fext(silent=True)
                kT_new = fresh.calc_kT(c, inc=inc2, silent=True).toarray()
                f_new = np.array(fresh.calc_fint(c, inc=inc2, silent=True), dtype=float)
                for nm, a, b in (('kT', kT_old, kT_new), ('fint', f_old, f_new)):
                    sc = np.abs(b).max()
                    df = np.abs(a - b).max()
                    if not (df <= 1e-10 * sc):
                        raise Violation('J7-redefinition', dict(ctx, redefine=rd, quantity=nm, maxdiff=float(df), scale=float(sc),
                                                                why='after re-defining the %s the long-lived object differs from a '
                                                                    'freshly built shell with the same definition' % rd))
            bump(res['probes'], 'J7_checked_' + rd)
            res['steps'] += 4
        if scale <= 10 * noise:
            bump(res['probes'], 'J5_nonlinear_part_below_noise')
        check_held('end of scenario')
        bump(res['probes'], 'model_' + model)
        if sh['alphadeg']:
            bump(res['probes'], 'cone')
        if scen['imperfection']:
            bump(res['probes'], 'imperfection')
        res['nontrivial'] = bool(any(t > 1 and npts % t for t in scen['threads']) or scen['imperfection'])
        res['signature'] = ['%s/%s/%s/t%d/r%d/%s/%s/%s' % (model, 'cone' if sh['alphadeg'] else 'cyl', sh['method'], t, npts % t,
                                                          'imp' if scen['imperfection'] else 'perf', scen['first'], ompenv)
                            for t in scen['threads']]
    except Violation as v:
        settle(res, v, getattr(v, 'known_id', None))
    res['digest'] = log.digest()
    return res
