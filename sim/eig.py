"""Shared pieces of the C05/C06 simulators: workload matrices, dense reference models,
solver seams (start vector + fault plan), pair checks.  Imported inside workers only."""
import numpy as np
from scipy.linalg import eigh
from scipy.sparse import csr_matrix

from .core import bump


def gen_rng(seed, *salt):
    return np.random.Generator(np.random.PCG64([int(seed) & (2 ** 63 - 1)] + [int(s) for s in salt]))


def random_sym(rng, n, density):
    X = rng.standard_normal((n, n))
    mask = rng.random((n, n)) < density
    X = X * mask
    return X


def spd_block(rng, n, density, cond_exp, clustered, chain=False):
    """Symmetric positive definite n x n block."""
    if chain and n >= 4:
        # spring chain (finite-difference / Laplacian type): interior columns (-k, 2k, -k) sum to exactly zero,
        # every third node is grounded so that the block is positive definite
        k0 = float(2 ** int(rng.integers(-3, 8)))
        K = np.zeros((n, n))
        for i in range(n):
            K[i, i] = 2 * k0
            if i + 1 < n:
                K[i, i + 1] = K[i + 1, i] = -k0
        K[0, 0] = K[n - 1, n - 1] = k0          # free ends: column sum zero there too
        for i in range(1, n, 3):
            K[i, i] += k0 * float(2 ** int(rng.integers(-2, 3)))
        return K
    if clustered:
        Q, _ = np.linalg.qr(rng.standard_normal((n, n)))
        nclu = max(1, n // 3)
        base = np.sort(10 ** rng.uniform(0, cond_exp, nclu))
        d = base[rng.integers(0, nclu, n)]
        # half of the clusters exact, half split at 1e-3..1e-9 relative
        d = d * (1 + (rng.random(n) < 0.5) * 10 ** rng.uniform(-9, -3, n) * rng.standard_normal(n))
        K = (Q * d).dot(Q.T)
        return (K + K.T) / 2
    A = random_sym(rng, n, density)
    K = A.dot(A.T) / max(1, int(n * density))
    K += np.diag(10 ** rng.uniform(0, cond_exp, n) * 0.5)
    return (K + K.T) / 2


def embed(block, n, active):
    out = np.zeros((n, n))
    out[np.ix_(active, active)] = block
    return out


def make_pair_lb(p):
    """(K, KG, active) dense for a C05 scenario description p."""
    rng = gen_rng(p['mseed'], 5)
    n = p['n']
    nnull = min(p['nnull'], n - 3)
    null = np.sort(rng.choice(n, nnull, replace=False)) if nnull else np.array([], dtype=int)
    active = np.setdiff1d(np.arange(n), null)
    na = len(active)
    Ka = spd_block(rng, na, p['density'], p['cond_exp'], p.get('clustered', False), p.get('chain', False))
    kind = p['kg']
    if kind == 'nsd-full':
        B = random_sym(rng, na, p['density'])
        G = -(B.dot(B.T) / max(1, int(na * p['density'])) + np.diag(rng.uniform(0.1, 1.0, na)))
    elif kind == 'minus-identity':
        G = -np.eye(na)
    elif kind == 'nsd-lowrank':
        r = max(1, min(na, p.get('rank', na // 2)))
        B = rng.standard_normal((na, r))
        G = -B.dot(B.T) / r
    elif kind == 'w-only':
        # like the package: only every third amplitude carries geometric stiffness
        idx = np.arange(2, na, 3)
        if len(idx) == 0:
            idx = np.arange(na)
        B = rng.standard_normal((len(idx), len(idx)))
        Gw = -(B.dot(B.T) / len(idx) + np.diag(rng.uniform(0.1, 1.0, len(idx))))
        G = np.zeros((na, na))
        G[np.ix_(idx, idx)] = Gw
    elif kind == 'mixed':
        B = random_sym(rng, na, p['density'])
        G = (B + B.T) / 2
        if not np.any(G):
            G = np.diag(rng.standard_normal(na))
    else:
        raise ValueError(kind)
    G = (G + G.T) / 2
    # scale the load so that the smallest positive multiplier is p['lam_min']
    mu = eigh(G, Ka, eigvals_only=True)
    neg = mu[mu < -1e-14 * max(1e-300, np.abs(mu).max())]
    if len(neg):
        lam_min = -1.0 / neg.min()
        G = G * (lam_min / p['lam_min'])
    return embed(Ka, n, active), embed(G, n, active), active


def make_pair_freq(p):
    rng = gen_rng(p['mseed'], 6)
    n = p['n']
    nnull = min(p['nnull'], n - 3)
    null = np.sort(rng.choice(n, nnull, replace=False)) if nnull else np.array([], dtype=int)
    active = np.setdiff1d(np.arange(n), null)
    na = len(active)
    Ka = spd_block(rng, na, p['density'], p['cond_exp'], p.get('clustered', False), p.get('chain', False))
    kind = p.get('mass', 'spd')
    if kind == 'spd':
        Ma = spd_block(rng, na, p['density'], 1.0, False)
    elif kind == 'diag':
        Ma = np.diag(rng.uniform(0.2, 3.0, na))
    elif kind == 'identity':
        Ma = np.eye(na)
    else:
        raise ValueError(kind)
    # overall magnitude of the mass (unit systems differ by many orders of magnitude: SI panels with m,n >= 11
    # have mass-matrix column sums below 1e-12)
    Ma = Ma * p.get('mass_mag', 1.0)
    if p.get('mass_spread'):
        # masses spread over several decades (lumped equipment on a light skin, rotary next to translational inertia):
        # the spectrum then spans more than six decades
        dd = 10 ** rng.uniform(-p['mass_spread'] / 4.0, p['mass_spread'] / 4.0, na)
        Ma = Ma * dd[:, None] * dd[None, :]
    # scale so that the lowest circular frequency is p['w_min']
    w2 = eigh(Ka, Ma, eigvals_only=True)
    Ka = Ka * (p['w_min'] ** 2 / w2.min())
    return embed(Ka, n, active), embed(Ma, n, active), active


def ref_lb(K, KG, active):
    """Dense reference: all finite multipliers lambda with (K + lambda KG) v = 0 on the active block."""
    Ka = K[np.ix_(active, active)]
    Ga = KG[np.ix_(active, active)]
    mu = eigh(Ga, Ka, eigvals_only=True)
    scale = max(np.abs(mu).max(), 1e-300)
    nz = np.abs(mu) > 1e-12 * scale
    lam = -1.0 / mu[nz]
    return mu, lam


def is_pd(Ka, rtol=1e-10):
    w = np.linalg.eigvalsh(Ka)
    return w.min() > rtol * max(w.max(), 1e-300)


FAULT_KINDS = ['ArpackNoConvergence', 'ArpackError', 'SingularFactor', 'MemoryError', 'ValueError']


def make_fault(kind):
    from scipy.sparse.linalg import ArpackNoConvergence, ArpackError
    if kind == 'ArpackNoConvergence':
        return ArpackNoConvergence('ARPACK error -1: No convergence (injected)', np.zeros(0), np.zeros((0, 0)))
    if kind == 'ArpackError':
        return ArpackError(-9999)
    if kind == 'SingularFactor':
        return RuntimeError('Factor is exactly singular (injected)')
    if kind == 'MemoryError':
        return MemoryError('injected')
    if kind == 'ValueError':
        return ValueError('injected')
    raise ValueError(kind)


def start_vector(n, cls, seed, call):
    rng = gen_rng(seed, 7, call, n)
    g = rng.standard_normal(n)
    if cls == 'gauss':
        v = g
    elif cls == 'const':
        v = np.ones(n) + 1e-3 * g
    elif cls == 'alt':
        v = (-1.0) ** np.arange(n) + 1e-3 * g
    elif cls == 'ramp':
        v = np.linspace(1, 2, n) + 1e-3 * g
    elif cls == 'spike':
        v = 1e-3 * g
        v[int(rng.integers(0, n))] = 1.0
    else:
        raise ValueError(cls)
    return v / np.linalg.norm(v)


class SolverSeam(object):
    """Wraps eigsh/eigs in the given modules: supplies v0, counts calls, injects faults."""

    def __init__(self, scen, res, log, names=('eigsh', 'eigs')):
        self.scen = scen
        self.res = res
        self.log = log
        self.calls = 0
        self.faults = {int(f['call']): f['kind'] for f in scen.get('faults', [])}
        self.patched = []
        self.modes = []
        self.names = names
        self.natural_failures = 0

    def wrap(self, real, name):
        seam = self

        def wrapper(*a, **kw):
            seam.calls += 1
            j = seam.calls
            A = kw.get('A', a[0] if a else None)
            n = A.shape[0]
            seam.modes.append(kw.get('mode', 'normal'))
            seam.log.add('solver', name, j, int(n), int(kw.get('k', -1)), str(kw.get('which')), str(kw.get('mode')))
            if j in seam.faults:
                bump(seam.res['faults'], 'inject_' + seam.faults[j])
                raise make_fault(seam.faults[j])
            v0 = seam.scen.get('v0')
            if v0 is not None and 'v0' not in kw:
                kw['v0'] = start_vector(n, v0['cls'], v0['seed'], j)
                if 'rng' not in kw:
                    kw['rng'] = gen_rng(v0['seed'], 8, j, n)   # ARPACK restarts draw from this generator, not from the OS
            try:
                return real(*a, **kw)
            except Exception as e:
                seam.natural_failures += 1
                bump(seam.res['probes'], 'solver_natural_failure_' + type(e).__name__)
                raise
        return wrapper

    def install(self, modules):
        for mod in modules:
            for name in self.names:
                if hasattr(mod, name):
                    real = getattr(mod, name)
                    self.patched.append((mod, name, real))
                    setattr(mod, name, self.wrap(real, name))

    def remove(self):
        for mod, name, real in self.patched:
            setattr(mod, name, real)
        self.patched = []


def match_values(got, ref, rtol):
    """Greedy one-to-one matching of got values to reference values; returns unmatched got indices."""
    ref = list(ref)
    bad = []
    for i, g in enumerate(got):
        best = None
        for j, r in enumerate(ref):
            if abs(g - r) <= rtol * max(abs(r), abs(g)):
                if best is None or abs(g - r) < abs(g - ref[best]):
                    best = j
        if best is None:
            bad.append(i)
        else:
            del ref[best]
    return bad


def compare_sorted_with_multiplicity(got, ref_sorted, rtol_of, k_limited=True, degenerate_rtol=1e-7):
    """Compare an ascending list of returned values with the ascending reference list.

    Returns (status, info): 'ok' | 'undercount' (the only discrepancy is that copies of degenerate
    reference values - relative separation below degenerate_rtol - are missing) | 'wrong'.
    """
    got = [float(x) for x in got]
    ref = [float(x) for x in ref_sorted]
    for a, b in zip(got[:-1], got[1:]):
        if b < a - 2 * rtol_of(a) * abs(a):
            return 'wrong', {'why': 'not ascending', 'pair': [a, b]}
    # clusters of the reference
    clusters = []
    for r in ref:
        if clusters and abs(r - clusters[-1][-1]) <= max(degenerate_rtol, 2.5 * rtol_of(r)) * abs(r):
            clusters[-1].append(r)
        else:
            clusters.append([r])
    gi = 0
    under = []
    for ci, cl in enumerate(clusters):
        if gi >= len(got):
            break
        lo, hi = cl[0], cl[-1]
        tol = rtol_of(lo) * abs(lo)
        cnt = 0
        while gi < len(got) and got[gi] <= hi + tol:
            if got[gi] < lo - tol:
                return 'wrong', {'why': 'value is not among the smallest reference values', 'value': got[gi],
                                 'next_reference': lo}
            cnt += 1
            gi += 1
        if cnt > len(cl):
            return 'wrong', {'why': 'value returned more often than its multiplicity', 'value': lo, 'count': cnt,
                             'multiplicity': len(cl)}
        if cnt == 0:
            return 'wrong', {'why': 'a smaller reference value was skipped', 'skipped': lo,
                             'next_returned': got[gi] if gi < len(got) else None}
        if cnt < len(cl) and gi < len(got):
            # the cluster was merged by the comparison tolerance; inside it, values closer than degenerate_rtol are
            # copies of one degenerate value.  Every distinct value must be represented; missing copies are 'undercount'.
            distinct = 1
            for a, b in zip(cl[:-1], cl[1:]):
                if abs(b - a) > degenerate_rtol * abs(b):
                    distinct += 1
            if cnt < distinct:
                return 'wrong', {'why': 'reference values are missing', 'near': lo, 'returned': cnt, 'reference_count': len(cl),
                                 'distinct_reference_values': distinct}
            under.append({'value': lo, 'returned': cnt, 'multiplicity': len(cl)})
    if gi < len(got):
        return 'wrong', {'why': 'more values returned than the reference has', 'extra': got[gi:gi + 3]}
    if under:
        return 'undercount', {'why': 'copies of degenerate multipliers are missing', 'clusters': under[:4]}
    return 'ok', {}
