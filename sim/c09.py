"""C09 - Newton-Raphson driver: reports only equilibrated states, in load order, and stops.

The system under simulation is the real `Analysis.static(NLgeom=True)` -> `_solver_NR`
-> `compmech.sparse.solve`.  The simulator owns the four user callables (constructor
seam), the driver's log functions (module attributes msg/warn) and a line-event step
budget on the driver's own code objects (sys.monitoring), and injects residual
histories, tangent faults, NaN/inf residuals and raising callables.

Top of module is pure Python (generation, shrinking); numpy/compmech are imported only
inside execute().
"""
import math
import random

from .core import Result, Violation, HarnessError, EventLog, bump, rng_for, sha_bytes

PROP = 'C09'
TIMEOUT = 400
HANG_IS_VIOLATION = True
BATCHES = {
    'quick': [('S', 16000), ('SL', 3000), ('P', 4000), ('R', 10)],
    'thorough': [('S', 1200000), ('SL', 150000), ('P', 300000), ('R', 400)],
}
CHUNK = {'S': 400, 'SL': 150, 'P': 200, 'R': 1}
COST = {'S': 1, 'SL': 2, 'P': 2, 'R': 500}
RULE = ('scenario = (driver knobs, world, residual script / structure / real model, fault plan) drawn from '
        'H(VERIF_SEED,C09,batch,i); worlds: S scripted residual histories (exact outcome control), SL scripted with '
        'line search (free-running), P small analytic structures, R real Panel/ConeCyl callables. A scenario is '
        'non-trivial if at least one load-step attempt failed (diverged / too slow / iteration limit / nan / inf) or '
        'a fault fired; distinct = distinct schedule signature (world, knob class, per-attempt outcome string '
        'truncated to 14 attempts, exit class).')
SIM_TIME_NOTE = ('sim_time = summed attempted load-factor increments ("time" in the driver\'s own log); '
                 'sim_steps = calls of user callables made by the driver')
COMPONENTS = {
    'real': ['compmech.analysis.Analysis.static', 'compmech.analysis.newton_raphson._solver_NR',
             'compmech.sparse.solve/remove_null_cols', 'scipy SuperLU spsolve',
             'world R: Panel.calc_fext/calc_k0/calc_fint/calc_kT, ConeCyl.calc_fext/calc_k0/calc_fint/calc_kT and their kernels'],
    'stub': ['worlds S/SL/P: the four user callables calc_fext/calc_k0/calc_fint/calc_kT (scripted or analytic)',
             'compmech.logger msg/warn as seen by newton_raphson (recorder)'],
}
ASSUMPTIONS = [
    '"last load factor equal to 1" is read as |lambda_last-1| < 1e-3, the completion band the driver documents by reporting lambda_last itself',
    'in the scripted world the residual of a reported state is the residual of the last fint evaluation the driver made at exactly that state and load factor',
    'minInc <= 0 is outside the property (it speaks of the configured minimum) and is not generated',
    'an exception raised by a user callable may propagate; what has been reported so far must still satisfy I1-I3',
]

OUTCOMES = ['C', 'D', 'S', 'M', 'N', 'I', 'E', 'T']


# --------------------------------------------------------------------------- generation

def gen_knobs(rng, line_search):
    initialInc = rng.choice([1.0, 0.5, 0.3, 0.1, rng.uniform(0.02, 1.0), rng.uniform(0.2, 1.0)])
    lo = rng.choice([1e-4] * 11 + [1e-7])
    minInc = rng.choice([1e-3, initialInc, initialInc * rng.uniform(0.01, 1.0),
                         math.exp(rng.uniform(math.log(lo), math.log(initialInc))),
                         initialInc * 0.31, initialInc * 0.09])
    minInc = min(max(minInc, lo), initialInc)
    maxInc = rng.choice([1.0, 1.0, initialInc * rng.uniform(0.2, 1.0), initialInc * rng.uniform(1.0, 3.0),
                         rng.uniform(0.01, 1.0)])
    absTOL = rng.choice([1e-3, 1e-6, 1e-1, 10 ** rng.uniform(-8, 0)])
    maxNumIter = rng.choice([2, 3, 4, 5, 8, 12, 30, rng.randint(2, 40)])
    too_slow = rng.choice([0.0, 0.01, 0.01, 0.3, rng.uniform(0.0, 0.3)])
    return dict(initialInc=initialInc, minInc=minInc, maxInc=maxInc, absTOL=absTOL,
                maxNumIter=maxNumIter, too_slow_TOL=too_slow, line_search=bool(line_search),
                max_iter_line_search=rng.choice([1, 2, 3, 5, 20, rng.randint(1, 20)]),
                modified_NR=rng.random() < 0.6, compute_every_n=rng.randint(1, 8),
                kT_initial_state=rng.random() < 0.5)


def decreasing(rng, a, tol, count, floor_mult=2.0):
    """`count` residuals, all >= floor_mult*a, each step shrinking fast enough not to be 'too slow'."""
    gmin = 1.0 / (1.0 - min(0.9, 1.2 * tol)) * 1.05
    out = []
    cur = a * floor_mult * rng.uniform(1.0, 3.0)
    for _ in range(count):
        out.append(cur)
        cur = cur * rng.uniform(gmin, max(gmin * 1.5, 6.0))
    out.reverse()
    return out


def make_segment(rng, kind, k, knobs):
    a = knobs['absTOL']
    M = knobs['maxNumIter']
    tol = knobs['too_slow_TOL']
    if kind == 'C':
        k = max(2, min(k, M))
        seg = decreasing(rng, a, tol, k - 1) + [a * rng.choice([0.999, 0.5, 1e-3, 1e-9, 0.0])]
        tail = 'hold'
    elif kind == 'T':  # tiny residual at iteration 1, then converge at k>=2
        k = max(2, min(k, M))
        seg = decreasing(rng, a, tol, k - 1) + [a * 0.5]
        seg[0] = a * rng.choice([1e-3, 0.5, 0.0])
        tail = 'hold'
    elif kind == 'E':  # residual exactly == absTOL at k (must not be accepted), converge next
        k = max(2, min(k, M - 1)) if M >= 3 else 2
        seg = decreasing(rng, a, tol, k - 1) + [a, a * 0.3]
        tail = 'hold'
    elif kind == 'D':
        k = max(3, min(k, M))
        seg = decreasing(rng, a, tol, k - 1)
        seg.append(seg[-1] * rng.choice([1.01, 2.0, 50.0, 1e6]))
        tail = 'grow'
    elif kind == 'S':
        k = max(3, min(k, M))
        seg = decreasing(rng, a, tol, k - 1)
        seg.append(seg[-1] * (1.0 - tol * rng.uniform(0.0, 0.9)))
        tail = 'grow'
    elif kind == 'M':
        seg = decreasing(rng, a, tol, M)
        tail = 'grow'
    elif kind == 'N':
        k = max(1, min(k, M))
        seg = decreasing(rng, a, tol, k - 1) + ['nan']
        seg += make_segment(rng, rng.choice(['C', 'D', 'M']), rng.randint(2, 6), knobs)[0]
        tail = 'grow'
    elif kind == 'I':
        k = max(1, min(k, M))
        seg = decreasing(rng, a, tol, k - 1) + ['inf']
        seg += make_segment(rng, rng.choice(['C', 'D', 'M']), rng.randint(2, 6), knobs)[0]
        tail = 'grow'
    else:
        raise ValueError(kind)
    return seg, tail


def gen_script(rng, knobs, nseg):
    M = knobs['maxNumIter']
    pfail = rng.choice([0.0, 0.1, 0.3, 0.5, 0.8, 1.0])
    fails = ['D', 'M', 'N', 'I']
    if knobs['too_slow_TOL'] > 0:
        fails.append('S')
    if M < 3:
        fails = ['M', 'N', 'I']
    wf = [rng.random() ** 2 for _ in fails]
    oks = ['C', 'C', 'C', 'T', 'E']
    pattern = rng.choice(['iid', 'iid', 'first-fails', 'late-fails', 'burst'])
    segs = []
    for i in range(nseg):
        p = pfail
        if pattern == 'first-fails':
            p = 1.0 if i < rng.randint(1, 4) else pfail * 0.3
        elif pattern == 'late-fails':
            p = 0.0 if i < rng.randint(1, 5) else max(pfail, 0.5)
        elif pattern == 'burst':
            p = 1.0 if (i // 3) % 2 == 1 else 0.05
        if rng.random() < p:
            kind = rng.choices(fails, wf)[0]
        else:
            kind = rng.choice(oks)
        k = rng.choice([2, 2, 3, 3, 4, M, rng.randint(1, max(1, M))])
        seg, tail = make_segment(rng, kind, k, knobs)
        segs.append({'o': kind, 'r': seg, 't': tail})
    return segs


def gen_free_script(rng, knobs, nseg):
    """Line-search mode: the driver's extra fint calls consume entries, so outcomes are not controlled."""
    a = knobs['absTOL']
    segs = []
    mode = rng.choice(['loguniform', 'trend', 'mostly-small'])
    for i in range(nseg):
        n = rng.randint(3, 60)
        seg = []
        cur = a * 10 ** rng.uniform(0, 6)
        for j in range(n):
            if mode == 'loguniform':
                seg.append(a * 10 ** rng.uniform(-3, 5))
            elif mode == 'trend':
                cur *= 10 ** rng.uniform(-1.5, 0.4)
                seg.append(cur)
            else:
                seg.append(a * 10 ** rng.uniform(-3, 0.5))
            if rng.random() < 0.01:
                seg[-1] = rng.choice(['nan', 'inf'])
        segs.append({'o': 'F', 'r': seg, 't': rng.choice(['hold', 'grow'])})
    return segs


def gen_spd(rng, n):
    K = [[0.0] * n for _ in range(n)]
    for i in range(n):
        for j in range(i + 1, n):
            if rng.random() < 0.7:
                v = rng.uniform(-1, 1)
                K[i][j] = v
                K[j][i] = v
    for i in range(n):
        K[i][i] = sum(abs(x) for x in K[i]) + rng.uniform(0.5, 3.0)
    return K


def gen_faults(rng, p):
    faults = []
    if rng.random() < p:
        faults.append({'kind': 'raise', 'target': rng.choice(['fint', 'fint', 'kT', 'fext', 'k0']),
                       'at': rng.choice([1, 2, 3, 5, 9, rng.randint(1, 60)]),
                       'exc': rng.choice(['RuntimeError', 'ValueError', 'FloatingPointError', 'ZeroDivisionError', 'MemoryError',
                                          'LinAlgError', 'KeyError'])})
    return faults


def _finish(scen, rng):
    # how the user wrote the callables (the driver passes c=, inc=, silent= by keyword): plain functions, keyword-only
    # parameters, functools.partial objects, callable instances, **kwargs wrappers
    scen['callable_form'] = rng.choice(['plain', 'plain', 'plain', 'kwonly', 'partial', 'object', 'kwargs'])
    # settings changed (attribute assignment on the Analysis object) between the first and the second analysis
    scen['repeat_knobs'] = rng.choice([None, {'absTOL': 1e-3}, {'absTOL': 1e-2}, {'minInc': 0.5}, {'maxNumIter': 2}])
    return scen


def generate(seed, batch):
    rng = rng_for(seed, 'C09', batch)
    scen = {'prop': PROP, 'seed': seed, 'batch': batch}
    if batch in ('S', 'SL'):
        ls = (batch == 'SL')
        knobs = gen_knobs(rng, ls)
        n = rng.randint(2, 4)
        j = rng.randrange(n)
        f1 = [rng.uniform(-2, 2) for _ in range(n)]
        f1[j] = 0.0
        scen.update(world='S', knobs=knobs, n=n, j=j, K=gen_spd(rng, n), f1=f1,
                    sign=rng.choice([-1.0, 1.0]))
        nseg = rng.choice([6, 12, 30, 60])
        scen['script'] = gen_free_script(rng, knobs, nseg) if ls else gen_script(rng, knobs, nseg)
        scen['ktscale'] = rng.choice([[1.0], [1.0], [rng.uniform(0.3, 3.0)], [1.0, 100.0, 0.3],
                                      [1.0, 1.0, 0.0] if rng.random() < 0.2 else [1.0]])
        scen['faults'] = gen_faults(rng, 0.12)
        scen['repeat'] = rng.random() < 0.15
    elif batch == 'P':
        knobs = gen_knobs(rng, rng.random() < 0.4)
        n = rng.randint(1, 5)
        kind = rng.choice(['hardening', 'softening', 'arctan', 'sqrt', 'linear', 'linear', 'snap'])
        scen.update(world='P', knobs=knobs, n=n, K=gen_spd(rng, n),
                    f=[rng.choice([-1, 1]) * 10 ** rng.uniform(-2, 2) for _ in range(n)],
                    f0=[(rng.uniform(-0.1, 0.1) if rng.random() < 0.3 else 0.0) for _ in range(n)],
                    struct={'kind': kind, 'beta': 10 ** rng.uniform(-3, 2), 's': 10 ** rng.uniform(-1, 1.5),
                            'nan_radius': rng.choice([None, None, 10 ** rng.uniform(0, 3)])},
                    tangent={'mode': rng.choice(['exact', 'exact', 'exact', 'scaled', 'stale', 'unsym', 'singular']),
                             's': rng.choice([0.3, 0.5, 2.0, 10.0, 100.0])})
        if kind == 'linear':
            scen['knobs']['absTOL'] = max(scen['knobs']['absTOL'], 1e-7)
            scen['tangent']['mode'] = rng.choice(['exact', 'stale'])
            scen['struct']['nan_radius'] = None
        scen['faults'] = gen_faults(rng, 0.05)
        scen['repeat'] = rng.random() < 0.15
        if rng.random() < 0.15:
            scen['force_unit'] = 10 ** rng.uniform(-16, 9)
            scen['knobs']['absTOL'] = scen['knobs']['absTOL'] * scen['force_unit']
    elif batch == 'R':
        knobs = gen_knobs(rng, False)
        knobs['minInc'] = max(knobs['minInc'], 0.01)
        knobs['maxNumIter'] = max(3, min(knobs['maxNumIter'], 12))
        knobs['absTOL'] = rng.choice([1e-3, 1e-2, 1e-4])
        kind = rng.choice(['plate', 'cpanel', 'conecyl'])
        scen.update(world='R', knobs=knobs,
                    real={'kind': kind, 'm': rng.randint(3, 5), 'n': rng.randint(3, 5),
                          'loadscale': 10 ** rng.uniform(-1, 4.5), 'pert': 10 ** rng.uniform(-4, -1),
                          'model': rng.choice(['clpt_donnell_bc1', 'clpt_donnell_bc2', 'clpt_donnell_bc3',
                                               'clpt_donnell_bc4']),
                          'm1': rng.randint(3, 6), 'm2': rng.randint(2, 3), 'n2': rng.randint(2, 3),
                          'cores': rng.randint(1, 4)})
        scen['faults'] = []
        scen['repeat'] = rng.random() < 0.3
    else:
        raise ValueError(batch)
    return _finish(scen, rng)


# --------------------------------------------------------------------------- shrinking

def shrink_candidates(scen):
    import copy
    if scen.get('repeat'):
        c = copy.deepcopy(scen)
        c['repeat'] = False
        yield c
    # 1. drop faults
    if scen.get('faults'):
        c = copy.deepcopy(scen)
        c['faults'] = []
        yield c
    # 2. shorten script: drop trailing segments, then single segments
    if scen.get('script'):
        n = len(scen['script'])
        for keep in (1, 2, 3, n // 2, n - 1):
            if 0 < keep < n:
                c = copy.deepcopy(scen)
                c['script'] = c['script'][:keep]
                yield c
        for i in range(min(n, 12)):
            c = copy.deepcopy(scen)
            del c['script'][i]
            if c['script']:
                yield c
        for i in range(min(n, 8)):
            seg = scen['script'][i]
            if seg['o'] not in ('C2',) and len(seg['r']) > 2:
                c = copy.deepcopy(scen)
                a = c['knobs']['absTOL']
                c['script'][i] = {'o': 'C', 'r': [a * 4, a * 0.5], 't': 'hold'}
                yield c
    # 3. canonical knobs
    canon = dict(line_search=False, modified_NR=False, compute_every_n=1, kT_initial_state=False,
                 max_iter_line_search=1, too_slow_TOL=0.0, maxInc=1.0)
    for k, v in canon.items():
        if scen['knobs'].get(k) != v:
            c = copy.deepcopy(scen)
            c['knobs'][k] = v
            yield c
    for k, v in (('initialInc', 1.0), ('initialInc', 0.5), ('minInc', 0.1), ('minInc', 1e-3), ('absTOL', 1e-3),
                 ('maxNumIter', 5)):
        if scen['knobs'].get(k) != v and not (k == 'minInc' and v > scen['knobs']['initialInc']):
            c = copy.deepcopy(scen)
            c['knobs'][k] = v
            yield c
    if scen.get('ktscale') and scen['ktscale'] != [1.0]:
        c = copy.deepcopy(scen)
        c['ktscale'] = [1.0]
        yield c
    if scen.get('world') == 'P':
        if scen['tangent']['mode'] != 'exact':
            c = copy.deepcopy(scen)
            c['tangent']['mode'] = 'exact'
            yield c
        if scen['n'] > 1:
            c = copy.deepcopy(scen)
            n = scen['n'] - 1
            c['n'] = n
            c['K'] = [row[:n] for row in c['K'][:n]]
            c['f'] = c['f'][:n]
            c['f0'] = c['f0'][:n]
            yield c
        if any(scen['f0']):
            c = copy.deepcopy(scen)
            c['f0'] = [0.0] * scen['n']
            yield c


# --------------------------------------------------------------------------- execution

class _Budget(Exception):
    pass


class _Injected(Exception):
    """marker base of injected callable failures; the concrete classes below also derive from the exception type a real
    callable would raise (a domain error, a floating-point trap, a singular factorisation, an allocation failure)"""
    pass


def _injected_class(name):
    import numpy as np
    bases = {'RuntimeError': RuntimeError, 'ValueError': ValueError, 'FloatingPointError': FloatingPointError,
             'ZeroDivisionError': ZeroDivisionError, 'MemoryError': MemoryError, 'LinAlgError': np.linalg.LinAlgError,
             'KeyError': KeyError}
    base = bases.get(name, RuntimeError)
    return type('_Injected' + name, (_Injected, base), {})


class _Truncated(BaseException):
    """the simulator stops a legitimately long run (tiny minimum increment) after CALL_CAP callable calls"""


CALL_CAP = 25000


TOOL_ID = 4


class Monitor(object):
    """Ledger of every call the driver makes + the in-run invariants I1-I4."""

    def __init__(self, scen, log, res):
        self.scen = scen
        self.knobs = scen['knobs']
        self.log = log
        self.res = res
        self.analysis = None
        self.ledger = []          # (event#, kind, inc, sha(c), rho)
        self.nrep = 0
        self.rep_sha = []
        self.rep_event = []
        self.event = 0
        self.calls = 0
        self.lines = 0
        self.logs = 0
        self.attempts = []        # per attempt: dict(total=, fint=, outcome=)
        self.cur = None
        self.fext_incs = []
        self.counts = {}
        self.world = scen['world']
        k = self.knobs
        M = k['maxNumIter']
        self.per_attempt_budget = M * (2 + 2 * k['max_iter_line_search']) + 8
        smax = math.ceil(1.0 / min(k['minInc'], k['initialInc'])) + 12
        fmax = (math.log(max(k['initialInc'], k['maxInc'], 1.0) / k['minInc']) + smax * math.log(1.1)) / math.log(1 / 0.3) + 2
        self.attempt_budget = int(4 * (smax + fmax)) + 8
        self.pure = None          # (fext, fint) pure callables for worlds P/R
        self.violation = None
        self.submin = 0
        self.truncated = False

    def begin_run(self):
        """a new analysis starts on the same Analysis object: forget the reports of the previous one"""
        self.nrep = 0
        self.rep_sha = []
        self.rep_event = []
        self.attempts = []
        self.cur = None
        self.submin = 0
        self.ledger.append((self.event, 'new-run', None, None, None))

    # --- bookkeeping
    def on_line(self, code, line):
        self.lines += 1
        if self.lines > 2000 + 150 * (self.calls + self.logs):
            self.fail('I4-termination', {'why': 'driver spins: %d line events for %d callable calls and %d log events'
                                         % (self.lines, self.calls, self.logs)})

    def fail(self, inv, detail):
        if self.violation is None:
            detail = dict(detail)
            detail['ledger_tail'] = [list(x) for x in self.ledger[-8:]]
            detail['increments'] = [float(x) for x in (self.analysis.increments or [])][-6:] if self.analysis else None
            self.violation = Violation(inv, detail, step=self.event)
        raise self.violation

    def new_attempt(self, inc):
        self.cur = {'total': inc, 'fint': 0, 'calls': 0, 'why': ''}
        self.attempts.append(self.cur)
        if len(self.attempts) > self.attempt_budget:
            self.fail('I4-termination', {'why': 'more than %d load-step attempts' % self.attempt_budget})

    def call(self, kind, inc=None, c=None, rho=None):
        self.event += 1
        self.calls += 1
        if self.calls > CALL_CAP and self.violation is None:
            self.truncated = True
            raise _Truncated()
        bump(self.counts, kind)
        sha = sha_bytes(c.tobytes()) if c is not None else None
        self.ledger.append((self.event, kind, inc, sha, rho))
        self.log.add(self.event, kind, inc, sha, rho)
        if self.cur is not None:
            self.cur['calls'] += 1
            if kind == 'fint':
                self.cur['fint'] += 1
            if self.cur['calls'] > self.per_attempt_budget:
                self.fail('I4-termination', {'why': 'more than %d callable calls in one load step'
                                             % self.per_attempt_budget})
        self.check_reports()

    def on_log(self, text):
        self.logs += 1
        if self.logs > 50 * (self.calls + 20):
            self.fail('I4-termination', {'why': 'driver logs without calling callables'})
        key = None
        if text.startswith('Diverged! (conv'):
            key = 'S'
        elif text.startswith('Diverged!'):
            key = 'D'
        elif text.startswith('Maximum number of iter'):
            key = 'M'
        elif text.startswith('Bisecting'):
            bump(self.res['probes'], 'bisection')
        elif text.startswith('Minimum step size'):
            bump(self.res['probes'], 'log_min_step')
        elif text.startswith('maxinum number'):
            bump(self.res['probes'], 'line_search_cap')
        elif text.startswith('Updating kT'):
            bump(self.res['probes'], 'modified_NR_update')
        if key and self.cur is not None:
            self.cur['why'] = key

    # --- invariants
    def check_reports(self):
        an = self.analysis
        if an is None or an.increments is None:
            return
        incs, cs = an.increments, an.cs
        if len(incs) != len(cs):
            # appended one after the other; only judge when consistent
            return
        import numpy as np
        # I3: snapshots unchanged
        for i in range(min(self.nrep, len(cs))):
            if sha_bytes(np.ascontiguousarray(cs[i]).tobytes()) != self.rep_sha[i]:
                self.fail('I3-snapshot', {'index': i, 'reported_at_event': self.rep_event[i],
                                          'why': 'a reported state changed after it was reported'})
        if len(cs) < self.nrep:
            self.fail('I3-snapshot', {'why': 'reported states disappeared', 'had': self.nrep, 'now': len(cs)})
        while self.nrep < len(cs):
            i = self.nrep
            lam = float(incs[i])
            c = np.ascontiguousarray(cs[i])
            sha = sha_bytes(c.tobytes())
            self.rep_sha.append(sha)
            self.rep_event.append(self.event)
            self.nrep += 1
            if self.cur is not None:
                self.cur['why'] = 'C'
            # I4b liveness: once increments are below the configured minimum the driver must stop soon
            prev_l = float(incs[i - 1]) if i > 0 else 0.0
            if lam - prev_l < min(self.knobs['minInc'], self.knobs['maxInc'], self.knobs['initialInc']) * (1 - 1e-9):
                self.submin += 1
                if self.submin > 40:
                    self.fail('I4-termination', {'why': 'more than 40 reported steps with an increment below the '
                                                 'configured minimum', 'minInc': self.knobs['minInc'],
                                                 'increment': lam - prev_l})
            # I2 order
            prev = float(incs[i - 1]) if i > 0 else 0.0
            if not (lam > prev and lam <= 1.0):
                self.fail('I2-order', {'index': i, 'lambda': lam, 'previous': prev})
            # I1 equilibrium
            tol = self.knobs['absTOL']
            if self.world == 'S':
                hit = None
                for ev in reversed(self.ledger):
                    if ev[1] == 'fint' and ev[3] == sha and ev[2] == lam:
                        hit = ev
                        break
                if hit is None:
                    self.fail('I1-equilibrium', {'index': i, 'lambda': lam,
                                                 'why': 'reported state was never evaluated by calc_fint at this load factor'})
                rho = hit[4]
                if not (isinstance(rho, float) and rho < tol):
                    self.fail('I1-equilibrium', {'index': i, 'lambda': lam, 'residual': rho, 'absTOL': tol,
                                                 'why': 'last residual evaluated at the reported state is not below absTOL'})
            else:
                fext, fint = self.pure
                R = fext(lam) - fint(c, lam)
                rmax = float(np.abs(R).max())
                slack = 1e-9 if self.world == 'R' else 0.0
                if not (rmax < tol * (1 + slack)):
                    self.fail('I1-equilibrium', {'index': i, 'lambda': lam, 'residual': rmax, 'absTOL': tol,
                                                 'why': 'max|fext(lambda)-fint(c)| re-evaluated on the reported pair'})

    def final_checks(self, raised):
        import numpy as np
        self.check_reports()
        an = self.analysis
        incs = [float(x) for x in (an.increments or [])]
        if raised is not None:
            return 'raised'
        last = incs[-1] if incs else 0.0
        k = self.knobs
        if incs and abs(last - 1.0) < 1e-3:
            if last < 1.0:
                bump(self.res['probes'], 'finished_inside_band_below_1')
            return 'full'
        # must have ended on the minimum increment: last attempt failed, with a small increment
        att = [a for a in self.attempts if a['fint'] > 0]
        if not att:
            self.fail('I5-exit', {'why': 'no load step attempted and nothing reported'})
        lastatt = att[-1]
        if lastatt['why'] == 'C':
            self.fail('I5-exit', {'why': 'stopped short of full load after a successful step', 'last': last})
        d = lastatt['total'] - last
        if not (d < 20.0 * k['minInc']):
            self.fail('I5-exit', {'why': 'gave up although the failed increment was not near the configured minimum',
                                  'failed_increment': d, 'minInc': k['minInc'], 'last_reported': last,
                                  'attempted': lastatt['total']})
        bump(self.res['probes'], 'min_increment_stop_with_reports' if incs else 'min_increment_stop_nothing_reported')
        return 'mininc'


def _install_monitoring(mon):
    import sys
    import compmech.analysis.newton_raphson as nr
    import compmech.analysis.analysis as an
    m = sys.monitoring
    codes = []
    for mod in (nr, an):
        for v in list(vars(mod).values()):
            co = getattr(v, '__code__', None)
            if co is not None and co.co_filename == getattr(mod, '__file__', None):
                codes.append(co)
            if isinstance(v, type):
                for vv in vars(v).values():
                    co = getattr(vv, '__code__', None)
                    if co is not None and co.co_filename == mod.__file__:
                        codes.append(co)
    try:
        m.use_tool_id(TOOL_ID, 'verif-c09')
    except ValueError:
        pass
    m.register_callback(TOOL_ID, m.events.LINE, mon.on_line)
    for co in codes:
        m.set_local_events(TOOL_ID, co, m.events.LINE)
    return codes


def _uninstall_monitoring(codes):
    import sys
    m = sys.monitoring
    for co in codes:
        try:
            m.set_local_events(TOOL_ID, co, 0)
        except Exception:
            pass
    m.register_callback(TOOL_ID, m.events.LINE, None)
    try:
        m.free_tool_id(TOOL_ID)
    except Exception:
        pass


def _fault_hook(scen, mon, res):
    faults = [f for f in scen.get('faults', []) if f['kind'] == 'raise']

    def hook(target):
        for f in faults:
            if f['target'] == target and mon.counts.get(target, 0) == f['at']:
                bump(res['faults'], 'raise_' + target)
                raise _injected_class(f.get('exc', 'RuntimeError'))('injected failure of calc_%s at call %d' % (target, f['at']))
    return hook


def build_world_S(scen, mon, res):
    import numpy as np
    from scipy.sparse import csr_matrix
    n, j = scen['n'], scen['j']
    K = csr_matrix(np.array(scen['K'], dtype=float))
    f1 = np.array(scen['f1'], dtype=float)
    u = np.zeros(n)
    u[j] = scen['sign']
    script = scen['script']
    a = scen['knobs']['absTOL']
    state = {'seg': -1, 'pos': 0, 'nkt': 0, 'last': None}
    hook = _fault_hook(scen, mon, res)
    ktscale = scen.get('ktscale') or [1.0]

    def next_rho():
        if state['seg'] < 0:
            state['seg'] = 0
        if state['seg'] >= len(script):
            seg = {'o': 'C', 'r': [a * 4, a * 0.5], 't': 'hold'}
            bump(res['probes'], 'script_exhausted')
        else:
            seg = script[state['seg']]
        r = seg['r']
        p = state['pos']
        state['pos'] += 1
        if p < len(r):
            v = r[p]
        else:
            last = state['last'] if state['last'] is not None else a
            if seg['t'] == 'hold':
                v = r[-1] if isinstance(r[-1], float) else a * 0.5
            else:
                v = (last if (isinstance(last, float) and math.isfinite(last)) else a) * 2.0 + a
        if v == 'nan':
            v = float('nan')
            bump(res['faults'], 'nan_residual')
        elif v == 'inf':
            v = float('inf')
            bump(res['faults'], 'inf_residual')
        v = float(v)
        state['last'] = v
        return v

    def calc_fext(inc=1., silent=True):
        mon.call('fext', float(inc))
        hook('fext')
        if state['pos'] > 0:
            state['seg'] += 1
            state['pos'] = 0
        mon.new_attempt(float(inc))
        return inc * f1

    def calc_k0(silent=True):
        mon.call('k0')
        hook('k0')
        return K

    def calc_kT(c=None, inc=1., silent=True):
        mon.call('kT', float(inc), c)
        hook('kT')
        s = ktscale[state['nkt'] % len(ktscale)]
        state['nkt'] += 1
        if s != 1.0:
            bump(res['faults'], 'tangent_scaled' if s != 0.0 else 'tangent_null')
        return K * s

    def calc_fint(c=None, inc=1., silent=True):
        rho = next_rho()
        mon.call('fint', float(inc), c, rho)
        hook('fint')
        return inc * f1 - rho * u

    return calc_fext, calc_k0, calc_fint, calc_kT


def build_world_P(scen, mon, res):
    import numpy as np
    from scipy.sparse import csr_matrix
    n = scen['n']
    Kd = np.array(scen['K'], dtype=float)
    K = csr_matrix(Kd)
    f = np.array(scen['f'], dtype=float)
    f0 = np.array(scen['f0'], dtype=float)
    st = scen['struct']
    kind, beta, s = st['kind'], st['beta'], st['s']
    nanr = st.get('nan_radius')
    tg = scen['tangent']
    hook = _fault_hook(scen, mon, res)
    memo = {'first': None}
    kdiag = np.diag(Kd).copy()

    def fint_pure(c, inc=1.):
        c = np.asarray(c, dtype=float)
        if nanr is not None and not (np.abs(c).max() <= nanr):
            return np.full(n, np.nan)
        if kind == 'linear':
            return Kd.dot(c)
        if kind == 'hardening':
            return Kd.dot(c) + beta * c.dot(c) * c
        if kind == 'softening':
            return Kd.dot(c) - beta * c.dot(c) * c
        if kind == 'arctan':
            return kdiag * np.arctan(s * c) / s
        if kind == 'sqrt':
            return kdiag * np.sign(c) * np.sqrt(np.abs(c))
        if kind == 'snap':
            return Kd.dot(c) - beta * c ** 2 + 0.3 * beta ** 2 / kdiag * c ** 3
        raise ValueError(kind)

    def tangent_pure(c):
        c = np.asarray(c, dtype=float)
        if kind == 'linear':
            return Kd.copy()
        if kind == 'hardening':
            return Kd + beta * (c.dot(c) * np.eye(n) + 2 * np.outer(c, c))
        if kind == 'softening':
            return Kd - beta * (c.dot(c) * np.eye(n) + 2 * np.outer(c, c))
        if kind == 'arctan':
            return np.diag(kdiag / (1 + (s * c) ** 2))
        if kind == 'sqrt':
            return np.diag(kdiag / (2 * np.sqrt(np.abs(c)) + 1e-12))
        if kind == 'snap':
            return Kd + np.diag(-2 * beta * c + 0.9 * beta ** 2 / kdiag * c ** 2)
        raise ValueError(kind)

    def fext_pure(inc=1.):
        return inc * f + f0

    def calc_fext(inc=1., silent=True):
        mon.call('fext', float(inc))
        hook('fext')
        mon.new_attempt(float(inc))
        return fext_pure(inc)

    def calc_k0(silent=True):
        mon.call('k0')
        hook('k0')
        return K

    def calc_kT(c=None, inc=1., silent=True):
        mon.call('kT', float(inc), c)
        hook('kT')
        mode = tg['mode']
        if mode == 'stale':
            if memo['first'] is None:
                memo['first'] = np.array(c, dtype=float).copy()
            T = tangent_pure(memo['first'])
        else:
            T = tangent_pure(c)
        if mode == 'scaled':
            T = T * tg['s']
        elif mode == 'unsym':
            T = T + np.triu(np.ones((n, n)), 1) * 0.2 * kdiag.min()
        elif mode == 'singular':
            T = T.copy()
            T[0, :] = 0.0
            T[:, 0] = 0.0
            if n > 1:
                T[1, :] = T[-1, :]
        if mode != 'exact':
            bump(res['faults'], 'tangent_' + mode)
        T = np.where(np.isfinite(T), T, 0.0)
        return csr_matrix(T)

    def calc_fint(c=None, inc=1., silent=True):
        out = fint_pure(c, inc)
        rho = float(np.abs(fext_pure(inc) - out).max())
        mon.call('fint', float(inc), c, rho if math.isfinite(rho) else repr(rho))
        hook('fint')
        if not np.all(np.isfinite(out)):
            bump(res['faults'], 'nan_residual')
        return out

    u = float(scen.get('force_unit') or 1.0)
    if u != 1.0:
        # the same structure in another force unit: stiffness, loads and the tolerance all carry the factor u, the
        # displacements are unchanged (nano-newtons or giga-newtons instead of newtons)
        _fe, _fi, _tp = fext_pure, fint_pure, tangent_pure
        fext_pure = lambda inc=1.: u * _fe(inc)                # noqa: E731
        fint_pure = lambda c, inc=1.: u * _fi(c, inc)          # noqa: E731
        tangent_pure = lambda c: u * _tp(c)                    # noqa: E731
        K = csr_matrix(u * Kd)
        bump(res['probes'], 'force_unit_1e%+d' % int(round(math.log10(u))))
    mon.pure = (fext_pure, fint_pure)
    return calc_fext, calc_k0, calc_fint, calc_kT, (u * Kd, u * f, u * f0)


def build_world_R(scen, mon, res):
    """Real callables; returns the object whose Analysis is to be driven."""
    import numpy as np
    r = scen['real']
    if r['kind'] in ('plate', 'cpanel'):
        from compmech.panel import Panel
        p = Panel()
        p.model = 'plate_clt_donnell_bardell' if r['kind'] == 'plate' else 'cpanel_clt_donnell_bardell'
        p.w1tx = 0
        p.u1tx = 1
        p.u1ty = 1
        p.u2ty = 1
        p.a = 2.
        p.b = 1.
        p.r = 10. if r['kind'] == 'cpanel' else None
        p.stack = [0, 90, -45, +45]
        p.plyt = 1e-3 * 0.125
        p.laminaprop = (142.5e9, 8.7e9, 0.28, 5.1e9, 5.1e9, 5.1e9)
        p.m = p.nx = r['m']
        p.n = p.ny = r['n']
        P = 10. * r['loadscale']
        npts = 5
        p.forces_inc = []
        for y in np.linspace(0, p.b, npts):
            p.forces_inc.append([0., y, P / (npts - 1.), 0, 0])
        p.forces_inc[0][2] /= 2.
        p.forces_inc[-1][2] /= 2.
        p.forces.append([p.a / 2., p.b / 2., 0, 0, r['pert'] * r['loadscale']])
        obj = p
        obj.calc_k0(silent=True)  # builds the laminate the non-linear callables read (see C20 findings)
    else:
        from compmech.conecyl import ConeCyl
        cc = ConeCyl()
        cc.model = r['model']
        cc.m1, cc.m2, cc.n2 = r['m1'], r['m2'], r['n2']
        cc.nx, cc.nt = 12, 16
        cc.ni_num_cores = r['cores']
        cc.laminaprop = (123.55e3, 8.708e3, 0.319, 5.695e3, 5.695e3, 5.695e3)
        cc.stack = [0, 0, 19, -19, 37, -37, 45, -45, 51, -51]
        cc.plyt = 0.125
        cc.r2 = 250.
        cc.H = 510.
        cc.add_SPL(10 * min(r['loadscale'], 30.), increment=False)
        for thetadeg in np.linspace(0, 360, 12, endpoint=False):
            cc.add_force(0., thetadeg, -15. * 25 * r['loadscale'], 0, 0, increment=True)
        obj = cc
    an = obj.analysis
    real = {'fext': an.calc_fext, 'k0': an.calc_k0, 'fint': an.calc_fint, 'kT': an.calc_kT}

    def calc_fext(inc=1., silent=True):
        mon.call('fext', float(inc))
        mon.new_attempt(float(inc))
        return real['fext'](inc=inc, silent=True)

    def calc_k0(silent=True):
        mon.call('k0')
        return real['k0'](silent=True)

    def calc_kT(c=None, inc=1., silent=True):
        mon.call('kT', float(inc), c)
        return real['kT'](c=c, inc=inc, silent=True)

    def calc_fint(c=None, inc=1., silent=True):
        mon.call('fint', float(inc), c)
        return real['fint'](c=c, inc=inc, silent=True)

    an.calc_fext, an.calc_k0, an.calc_fint, an.calc_kT = calc_fext, calc_k0, calc_fint, calc_kT
    mon.pure = (lambda lam: real['fext'](inc=lam, silent=True),
                lambda c, lam: real['fint'](c=c, inc=lam, silent=True))
    return obj


def outcome_string(mon):
    out = []
    for a in mon.attempts:
        why = a['why'] or '?'
        out.append('%s%d' % (why, a['fint']))
    return out


def _as_form(f, form, takes_c, takes_inc):
    """the same callable written the way a user might have written it"""
    import functools
    if form == 'kwonly':
        if takes_c:
            def g(c=None, *, inc=1., silent=True):
                return f(c=c, inc=inc, silent=silent)
        elif takes_inc:
            def g(*, inc=1., silent=True):
                return f(inc=inc, silent=silent)
        else:
            def g(*, silent=True):
                return f(silent=silent)
        return g
    if form == 'partial':
        # a keyword bound by partial makes it (and what follows it) keyword-only for introspection; it can still be overridden
        return functools.partial(f, silent=True)
    if form == 'object':
        class _Callable(object):
            def __call__(self, *a, **kw):
                return f(*a, **kw)
        return _Callable()
    if form == 'kwargs':
        def g(*a, **kw):
            return f(*a, **kw)
        return g
    return f


def execute(scen):
    import numpy as np
    import compmech.analysis.newton_raphson as nr
    from compmech.analysis import Analysis

    res = Result.new(PROP, scen.get('seed'))
    res['components'] = COMPONENTS
    log = EventLog()
    mon = Monitor(scen, log, res)
    k = scen['knobs']
    world = scen['world']
    obj = None
    lin = None
    form = scen.get('callable_form', 'plain')
    if world == 'S':
        fext, k0, fint, kT = build_world_S(scen, mon, res)
        an = Analysis(_as_form(fext, form, False, True), _as_form(k0, form, False, False), _as_form(fint, form, True, True),
                      _as_form(kT, form, True, True))
    elif world == 'P':
        fext, k0, fint, kT, lin = build_world_P(scen, mon, res)
        an = Analysis(_as_form(fext, form, False, True), _as_form(k0, form, False, False), _as_form(fint, form, True, True),
                      _as_form(kT, form, True, True))
    elif world == 'R':
        obj = build_world_R(scen, mon, res)
        an = obj.analysis
    else:
        raise HarnessError('unknown world')
    for key, v in k.items():
        setattr(an, key, v)
    mon.analysis = an

    old_msg, old_warn = nr.msg, nr.warn

    def rec(text='', *a, **kw):
        mon.on_log(str(text))
    nr.msg = rec
    nr.warn = rec
    codes = _install_monitoring(mon)
    raised = None
    try:
        try:
            with np.errstate(all='ignore'):
                an.static(NLgeom=True, silent=True)
                if scen.get('repeat'):
                    # a second analysis on the same Analysis object: what it reports must again be a fresh,
                    # ordered list of equilibrated states (nothing left over from the first run)
                    first_exit = mon.final_checks(None)
                    held_incs, held_cs = an.increments, an.cs          # what the caller got back from the first call
                    held_copy = ([float(x) for x in held_incs], [sha_bytes(np.ascontiguousarray(x).tobytes()) for x in held_cs])
                    mon.begin_run()
                    bump(res['probes'], 'second_run_on_same_analysis_object')
                    rk = scen.get('repeat_knobs')
                    if rk and world in ('P', 'R'):
                        # the user changes a setting on the Analysis object between the two analyses (plain attribute
                        # assignment): the second analysis is judged by the new settings
                        newk = dict(mon.knobs)
                        for kk_, fac in rk.items():
                            newk[kk_] = (max(1, int(newk[kk_] * fac)) if kk_ == 'maxNumIter' else newk[kk_] * fac)
                            if kk_ == 'maxNumIter':
                                newk[kk_] = max(2, newk[kk_] // 2)
                            setattr(an, kk_, newk[kk_])
                        mon.knobs = newk
                        bump(res['probes'], 'settings_changed_before_second_run_' + '+'.join(sorted(rk)))
                    if world == 'R' and hasattr(obj, 'static'):
                        obj.static(NLgeom=True, silent=True)
                    else:
                        an.static(NLgeom=True, silent=True)
                    now = ([float(x) for x in held_incs], [sha_bytes(np.ascontiguousarray(x).tobytes()) for x in held_cs])
                    if now != held_copy:
                        mon.fail('I3-snapshot', {'why': 'the lists returned by the first analysis were altered by a later analysis on the '
                                                        'same Analysis object', 'before': held_copy[0][-4:], 'after': now[0][-4:]})
        except Violation:
            raise
        except _Budget as e:
            raise
        except _Truncated:
            raised = None
            bump(res['probes'], 'truncated_long_run(no verdict on termination)')
        except Exception as e:
            raised = e
            bump(res['exceptions'], type(e).__name__)
            nonfinite = bool(res['faults'].get('nan_residual') or res['faults'].get('inf_residual'))
            if world in ('S', 'P') and not isinstance(e, _Injected) and not nonfinite:
                # every callable returned normally and with finite values, yet the analysis aborted with an exception: it
                # neither reached full load nor stopped on the minimum increment (e.g. a singular tangent must lead to a
                # cut-back).  After a callable has returned NaN/inf the Newton update is garbage (the solver may return NaN
                # or refuse to factorise): an exception is then accepted, what was reported before is still judged.
                mon.violation = mon.violation or Violation('I4-termination', {
                    'why': 'analysis aborted with an exception although no callable raised', 'exception': repr(e)[:200],
                    'increments': [float(x) for x in (an.increments or [])][-4:]}, step=mon.event)
        finally:
            _uninstall_monitoring(codes)
            nr.msg, nr.warn = old_msg, old_warn
        if mon.violation is not None:
            raise mon.violation
        if mon.truncated:
            mon.check_reports()          # what was reported so far is still judged (I1-I3); termination is not
            exit_class = 'truncated'
        else:
            exit_class = mon.final_checks(raised)
        if isinstance(raised, _Injected):
            bump(res['probes'], 'injected_exception_propagated')
        # I6 linear problems
        if world == 'P' and scen['struct']['kind'] == 'linear' and raised is None and not mon.truncated:
            Kd, f, f0 = lin
            incs = [float(x) for x in an.increments]
            cstar = np.linalg.solve(Kd, f + f0)
            if not incs or abs(incs[-1] - 1.0) >= 1e-3:
                mon.fail('I6-linear', {'why': 'linear problem not solved to full load', 'increments': incs[-4:]})
            lam = incs[-1]
            cstar = np.linalg.solve(Kd, lam * f + f0)
            err = float(np.abs(an.cs[-1] - cstar).max())
            bound = 1e-9 * float(np.abs(cstar).max()) + float(np.abs(np.linalg.inv(Kd)).sum(axis=1).max()) * k['absTOL']
            if not (err <= bound):
                mon.fail('I6-linear', {'why': 'state at full load is not the linear solution', 'err': err, 'bound': bound})
            bump(res['probes'], 'linear_problem_checked')
    except Violation as v:
        res['verdict'] = 'violation'
        res['invariant'] = v.invariant
        res['detail'] = v.detail
        res['step'] = v.step
        exit_class = 'violation'
    outs = outcome_string(mon)
    log.add('exit', exit_class, [float(x) for x in (an.increments or [])],
            [sha_bytes(np.ascontiguousarray(c).tobytes()) for c in (an.cs or [])])
    res['digest'] = log.digest()
    res['steps'] = mon.calls
    last = 0.0
    tot = 0.0
    incs = [float(x) for x in (an.increments or [])]
    for a in mon.attempts:
        prev = max([x for x in incs if x < a['total']] + [0.0])
        tot += max(0.0, a['total'] - prev)
    res['sim_time'] = tot
    nfail = sum(1 for a in mon.attempts if a['why'] in ('D', 'S', 'M') or (a['why'] in ('', '?') and a['fint'] > 0))
    res['nontrivial'] = bool(nfail or res['faults'])
    cls = '%s/%s%s%s' % (scen.get('batch', world), 'L' if k['line_search'] else '-', 'm' if k['modified_NR'] else '-',
                         'k' if k['kT_initial_state'] else '-')
    res['signature'] = cls + ':' + ' '.join(outs[:14]) + ':' + str(exit_class)
    # probes
    pr = res['probes']
    for a in mon.attempts:
        if a['why'] in ('C', 'D', 'S', 'M'):
            bump(pr, 'outcome_' + a['why'])
    if mon.attempts and mon.attempts[0]['why'] not in ('C',) and len(mon.attempts) > 1:
        bump(pr, 'first_increment_failed')
    run = 0
    best = 0
    regrow = False
    for a in mon.attempts:
        if a['why'] in ('D', 'S', 'M'):
            run += 1
            best = max(best, run)
        else:
            if run and a['why'] == 'C':
                regrow = True
            run = 0
    if best >= 3:
        bump(pr, 'three_consecutive_bisections')
    if regrow:
        bump(pr, 'success_after_bisection')
    if any(abs(a['total'] - 1.0) < 1e-3 and a['why'] in ('D', 'S', 'M') for a in mon.attempts):
        bump(pr, 'failure_at_full_load(once_at_total)')
    bump(pr, 'exit_' + str(exit_class))
    if raised is not None and not isinstance(raised, _Injected):
        bump(pr, 'callable_or_solver_exception')
    return res
