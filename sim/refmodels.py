"""Sequential reference models ("same interface, trivial inside").

Bardell's hierarchical functions are generated in exact rational arithmetic from the defining
formula (theory/func/bardell/bardell.py), *not* from the C tables, and evaluated point by point in
extended precision.  Field quantities follow the Ritz series and the Donnell relations.
"""
from fractions import Fraction
from math import factorial

import numpy as np

NMAX = 30
LD = np.longdouble


def _df(k):
    """double factorial for odd k >= -1"""
    if k in (-1, 0, 1):
        return 1
    out = 1
    while k > 1:
        out *= k
        k -= 2
    return out


def bardell_rational():
    """coefficients (ascending powers) of the 30 functions, without the boundary multipliers"""
    F = Fraction
    polys = [
        [F(1, 2), F(-3, 4), F(0), F(1, 4)],
        [F(1, 8), F(-1, 8), F(-1, 8), F(1, 8)],
        [F(1, 2), F(3, 4), F(0), F(-1, 4)],
        [F(-1, 8), F(-1, 8), F(1, 8), F(1, 8)],
    ]
    for r in range(5, NMAX + 1):
        co = [F(0)] * r
        for n in range(0, r // 2 + 1):
            p = r - 2 * n - 1
            if p < 0:
                continue
            co[p] += F((-1) ** n * _df(2 * r - 2 * n - 7), 2 ** n * factorial(n) * factorial(p))
        polys.append(co)
    return polys


def _deriv(co):
    return [co[p] * p for p in range(1, len(co))] or [Fraction(0)]


_POLYS = {}


def polys(order):
    """list over the 30 functions of longdouble coefficient arrays of the order-th derivative"""
    if not _POLYS:
        base = bardell_rational()
        d1 = [_deriv(c) for c in base]
        d2 = [_deriv(c) for c in d1]
        d3 = [_deriv(c) for c in d2]
        for k, lst in ((0, base), (1, d1), (2, d2), (3, d3)):
            _POLYS[k] = [np.array([LD(c.numerator) / LD(c.denominator) for c in co], dtype=LD) for co in lst]
    return _POLYS[order]


def eval_functions(xi, flags, nterms, order):
    """values (npts, nterms) of the order-th derivative of the first nterms functions at xi, and the
    values of the absolute-coefficient polynomials (for the rounding bound of the kernel's pow() sums)"""
    xi = np.asarray(xi, dtype=LD)
    ax = np.abs(xi)
    P = polys(order)
    vals = np.zeros((xi.shape[0], nterms), dtype=LD)
    absv = np.zeros((xi.shape[0], nterms), dtype=LD)
    for i in range(nterms):
        co = P[i]
        acc = np.zeros_like(xi)
        aacc = np.zeros_like(xi)
        for p in range(len(co) - 1, -1, -1):
            acc = acc * xi + co[p]
            aacc = aacc * ax + abs(co[p])
        mult = LD(flags[i]) if i < 4 else LD(1)
        vals[:, i] = mult * acc
        absv[:, i] = abs(mult) * aacc
    return vals, absv


FLAG_NAMES = {
    'u': (('u1tx', 'u1rx', 'u2tx', 'u2rx'), ('u1ty', 'u1ry', 'u2ty', 'u2ry')),
    'v': (('v1tx', 'v1rx', 'v2tx', 'v2rx'), ('v1ty', 'v1ry', 'v2ty', 'v2ry')),
    'w': (('w1tx', 'w1rx', 'w2tx', 'w2rx'), ('w1ty', 'w1ry', 'w2ty', 'w2ry')),
}


class SeriesField(object):
    """Ritz series of one component (a, b, m, n, flags of any object with Panel-like attributes)."""

    def __init__(self, obj, c, xs, ys, dofs=3):
        self.a, self.b = float(obj.a), float(obj.b)
        self.m, self.n = int(obj.m), int(obj.n)
        c = np.asarray(c, dtype=float)
        xs = np.asarray(xs, dtype=float).ravel()
        ys = np.asarray(ys, dtype=float).ravel()
        self.xi = 2 * xs.astype(LD) / LD(self.a) - 1
        self.eta = 2 * ys.astype(LD) / LD(self.b) - 1
        self.C = {}
        if dofs == 3:
            for d, name in enumerate('uvw'):
                self.C[name] = c[d::3].reshape(self.n, self.m).astype(LD)
        else:
            self.C['w'] = c.reshape(self.n, self.m).astype(LD)
        self.flags = {}
        for name, (fx, fy) in FLAG_NAMES.items():
            self.flags[name] = ([float(getattr(obj, f)) for f in fx], [float(getattr(obj, f)) for f in fy])
        self._cache = {}

    def basis(self, comp, ox, oy):
        key = (comp, ox, oy)
        if key not in self._cache:
            fx, fy = self.flags[comp]
            F, Fa = eval_functions(self.xi, fx, self.m, ox)
            G, Ga = eval_functions(self.eta, fy, self.n, oy)
            self._cache[key] = (F, Fa, G, Ga)
        return self._cache[key]

    def term(self, comp, ox, oy):
        """(value, tolerance) of sum_k c_k f_i^(ox)(xi) g_j^(oy)(eta) times (2/a)^ox (2/b)^oy.

        tolerance = SLACK*eps*sum|c||f||g| (rounding of the kernel's pow() sums and of its 15-digit coefficient
        tables, with |f| the absolute-coefficient polynomial) + 4*eps*(sum|c||f'||g| + sum|c||f||g'|), because
        the kernel forms xi = 2x/a - 1 in double precision (absolute error up to ~2 eps in xi)."""
        if comp not in self.C:
            z = np.zeros(self.xi.shape[0], dtype=LD)
            return z, z
        F, Fa, G, Ga = self.basis(comp, ox, oy)
        _, Fa1, _, _ = self.basis(comp, ox + 1, oy)
        _, _, _, Ga1 = self.basis(comp, ox, oy + 1)
        C = self.C[comp]
        Cabs = np.abs(C)
        scale = (LD(2) / LD(self.a)) ** ox * (LD(2) / LD(self.b)) ** oy
        val = np.einsum('pj,ji,pi->p', G, C, F) * scale
        a0 = np.einsum('pj,ji,pi->p', Ga, Cabs, Fa)
        ax = np.einsum('pj,ji,pi->p', Ga, Cabs, Fa1)
        ay = np.einsum('pj,ji,pi->p', Ga1, Cabs, Fa)
        tol = LD(EPS) * (SLACK * a0 + 4 * (ax + ay)) * abs(scale)
        return val, tol

    def per_term(self, comp, ox, oy):
        """(npts, n, m) arrays: the individual series terms and their rounding bounds (for the documented
        per-term-square variant of the non-linear strains)"""
        F, Fa, G, Ga = self.basis(comp, ox, oy)
        _, Fa1, _, _ = self.basis(comp, ox + 1, oy)
        _, _, _, Ga1 = self.basis(comp, ox, oy + 1)
        C = self.C[comp]
        Cabs = np.abs(C)
        scale = (LD(2) / LD(self.a)) ** ox * (LD(2) / LD(self.b)) ** oy
        t = np.einsum('pj,ji,pi->pji', G, C, F) * scale
        dt = LD(EPS) * abs(scale) * (SLACK * np.einsum('pj,ji,pi->pji', Ga, Cabs, Fa)
                                     + 4 * np.einsum('pj,ji,pi->pji', Ga, Cabs, Fa1)
                                     + 4 * np.einsum('pj,ji,pi->pji', Ga1, Cabs, Fa))
        return t, dt


EPS = float(np.finfo(float).eps)
SLACK = 16.0


def displacement_reference(sf):
    """u, v, w, phix, phiy with per-value tolerances"""
    out = {}
    for name, comp, ox, oy, sign in (('u', 'u', 0, 0, 1), ('v', 'v', 0, 0, 1), ('w', 'w', 0, 0, 1),
                                     ('phix', 'w', 1, 0, -1), ('phiy', 'w', 0, 1, -1)):
        val, tol = sf.term(comp, ox, oy)
        out[name] = (sign * val, tol)
    return out


def strain_reference(sf, r, nlterms):
    """Donnell strains of the series; r = 0/None means flat.  Returns {name: (value, tol)} for the correct
    kinematics and, separately, the documented sum-of-per-term-squares variant of the shipped kernel."""
    ux, uxt = sf.term('u', 1, 0)
    uy, uyt = sf.term('u', 0, 1)
    vx, vxt = sf.term('v', 1, 0)
    vy, vyt = sf.term('v', 0, 1)
    w, wt = sf.term('w', 0, 0)
    wx, wxt = sf.term('w', 1, 0)
    wy, wyt = sf.term('w', 0, 1)
    wxx, wxxt = sf.term('w', 2, 0)
    wyy, wyyt = sf.term('w', 0, 2)
    wxy, wxyt = sf.term('w', 1, 1)
    cyl = bool(r)
    exx, exxt = ux, uxt
    eyy, eyyt = (vy + w / LD(r), vyt + wt / abs(LD(r))) if cyl else (vy, vyt)
    gxy, gxyt = uy + vx, uyt + vxt
    out = {}
    lin = {'exx': (exx, exxt), 'eyy': (eyy, eyyt), 'gxy': (gxy, gxyt)}
    wrong = None
    if nlterms:
        half = LD(1) / LD(2)
        se = LD(SLACK * EPS)
        corr = {'exx': (half * wx * wx, (np.abs(wx) + wxt) * wxt + se * wx * wx),
                'eyy': (half * wy * wy, (np.abs(wy) + wyt) * wyt + se * wy * wy),
                'gxy': (wx * wy, np.abs(wx) * wyt + np.abs(wy) * wxt + wxt * wyt + se * np.abs(wx * wy))}
        tx, dtx = sf.per_term('w', 1, 0)
        ty, dty = sf.per_term('w', 0, 1)
        atx, aty = np.abs(tx), np.abs(ty)
        wrong = {'exx': exx + half * (tx * tx).sum(axis=(1, 2)), 'eyy': eyy + half * (ty * ty).sum(axis=(1, 2)),
                 'gxy': gxy + (tx * ty).sum(axis=(1, 2)),
                 'tol': {'exx': exxt + ((atx + dtx) * dtx + se * tx * tx).sum(axis=(1, 2)),
                         'eyy': eyyt + ((aty + dty) * dty + se * ty * ty).sum(axis=(1, 2)),
                         'gxy': gxyt + (atx * dty + aty * dtx + dtx * dty + se * atx * aty).sum(axis=(1, 2))}}
        for k in ('exx', 'eyy', 'gxy'):
            wrong['tol'][k] = wrong['tol'][k] + se * np.abs(wrong[k])
        # the per-term variant sums squares of individual terms: its rounding bound is the same order
        for k in lin:
            v, t = lin[k]
            out[k] = (v + corr[k][0], t + corr[k][1] + se * np.abs(v + corr[k][0]))
    else:
        for k in lin:
            out[k] = (lin[k][0], lin[k][1])
    out['kxx'] = (-wxx, wxxt)
    out['kyy'] = (-wyy, wyyt)
    out['kxy'] = (-2 * wxy, 2 * wxyt)
    return out, wrong


def clt_abd(stack, plyts, laminaprops, offset=0.0):
    """Classical lamination theory, written independently of compmech.composite: 6x6 ABD matrix of a stack of
    orthotropic plies (angles in degrees, bottom ply first), reference surface shifted by `offset` from the mid-plane.
    laminaprops entries: (E1, E2, nu12, G12, G13, G23)."""
    A = np.zeros((3, 3))
    B = np.zeros((3, 3))
    D = np.zeros((3, 3))
    h = float(sum(plyts))
    z0 = -h / 2.0 + offset
    for ang, t, prop in zip(stack, plyts, laminaprops):
        E1, E2, nu12, G12 = prop[0], prop[1], prop[2], prop[3]
        nu21 = nu12 * E2 / E1
        den = 1.0 - nu12 * nu21
        Q11, Q22, Q12, Q66 = E1 / den, E2 / den, nu12 * E2 / den, G12
        th = np.deg2rad(ang)
        c, s_ = np.cos(th), np.sin(th)
        c2, s2, c4, s4 = c * c, s_ * s_, c ** 4, s_ ** 4
        Qb11 = Q11 * c4 + 2 * (Q12 + 2 * Q66) * s2 * c2 + Q22 * s4
        Qb22 = Q11 * s4 + 2 * (Q12 + 2 * Q66) * s2 * c2 + Q22 * c4
        Qb12 = (Q11 + Q22 - 4 * Q66) * s2 * c2 + Q12 * (s4 + c4)
        Qb66 = (Q11 + Q22 - 2 * Q12 - 2 * Q66) * s2 * c2 + Q66 * (s4 + c4)
        Qb16 = (Q11 - Q12 - 2 * Q66) * s_ * c * c2 + (Q12 - Q22 + 2 * Q66) * s_ * s2 * c
        Qb26 = (Q11 - Q12 - 2 * Q66) * s_ * s2 * c + (Q12 - Q22 + 2 * Q66) * s_ * c * c2
        Qb = np.array([[Qb11, Qb12, Qb16], [Qb12, Qb22, Qb26], [Qb16, Qb26, Qb66]])
        z1 = z0 + t
        A += Qb * (z1 - z0)
        B += Qb * (z1 ** 2 - z0 ** 2) / 2.0
        D += Qb * (z1 ** 3 - z0 ** 3) / 3.0
        z0 = z1
    return np.block([[A, B], [B, D]])
