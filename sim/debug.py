"""In-process debugging helper: python -m sim.debug C05 F0 0 200  (prop batch first count)"""
import sys, os, json, warnings
warnings.simplefilter('ignore')
from . import core
from .worker import load_prop, run_one

def main(argv):
    prop, batch, first, count = argv[0], argv[1], int(argv[2]), int(argv[3])
    base = int(os.environ.get('VERIF_SEED', '1'))
    mod = load_prop(prop)
    sys.stdout = open(os.devnull, 'w')
    import tempfile
    os.chdir(tempfile.mkdtemp(prefix='verifw-'))
    out = sys.stderr
    stats = {}
    summary = {}
    examples = {}
    for i in range(first, first + count):
        seed = core.derive_seed(base, prop, batch, i)
        scen = mod.generate(seed, batch)
        res = run_one(mod, scen)
        core.bump(stats, res['verdict'] + ':' + str(res.get('invariant')))
        if res['verdict'] != 'ok' and '-s' in argv:
            dd = res.get('detail') or {}
            k = '%s %s op=%s fresh=%s %s %s' % (res.get('invariant'), dd.get('kind'), str(dd.get('op')).split('/')[0],
                                              str(dd.get('fresh_exc'))[:60], str(dd.get('subject_exc'))[:60], str(dd.get('where'))[:0])
            core.bump(summary, k)
            examples.setdefault(k, (i, dd.get('history'), str(dd.get('where'))[:150]))
        elif res['verdict'] != 'ok':
            print(i, seed, res['verdict'], res.get('invariant'), res.get('known'), json.dumps(res.get('detail'))[:700], file=out)
            if '-v' in argv:
                print('   ', json.dumps(scen)[:1500], file=out)
    for k in sorted(summary, key=lambda k: -summary[k]):
        print('%4d  %s   e.g. #%s hist=%s %s' % ((summary[k], k) + examples[k]), file=out)
    print(stats, file=out)

if __name__ == '__main__':
    main(sys.argv[1:])
