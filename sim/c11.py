"""C11 - recovered displacement/strain/stress fields match the Ritz series and kinematics for any point
set, order and worker count.

System under simulation: Panel.uvw/strain/stress, PanelAssembly.uvw/strain/stress,
StiffPanelBay.uvw_skin/uvw_stiffener and the real OpenMP kernels behind them.  The simulator owns the
partition of the threaded kernels (worker count 1..16 and above the point count, point count, point
order, the worker interpreter's OpenMP environment) and checks every configuration against a
sequential reference model and against each other.
"""
from .core import Result, Violation, HarnessError, EventLog, bump, rng_for, sha_bytes, settle

PROP = 'C11'
TIMEOUT = 900
BATCHES = {
    'quick': [('P', 4000), ('A', 500), ('B', 500)],
    'thorough': [('P', 200000), ('A', 25000), ('B', 25000)],
}
CHUNK = {'P': 25, 'A': 6, 'B': 4}
COST = {'P': 1, 'A': 4, 'B': 8}
RULE = ('scenario = (host in {Panel, PanelAssembly, StiffPanelBay}, model, geometry, series orders 1..14, edge flags, '
        'amplitude vector, point set (scattered / 2-D array / default grid; 1..200 points incl. primes, edge points), '
        'list of worker counts 1..16 and > #points, a permutation, linear or non-linear strain option, which of '
        'uvw/strain/stress). Non-trivial = some worker count does not divide the point count (padding branch) or exceeds '
        'it, or an assembly/bay slice is involved; distinct = distinct (host, model, quantity, workers, npoints mod workers, '
        'point kind, NLterms, OpenMP environment of the worker).')
COMPONENTS = {
    'real': ['Panel.uvw/strain/stress', 'PanelAssembly.uvw/strain/stress', 'StiffPanelBay.uvw_skin/uvw_stiffener',
             'clt_bardell_field.fuvw/fstrain and clt_bardell_field_w.fuvw (OpenMP prange kernels, real threads)',
             'bardell_functions.c', 'laminate.read_stack (for the laminate matrix in stress)'],
    'stub': ['nothing in the code under test; the simulator sets out_num_cores, the point partition and the OpenMP '
             'environment (OMP_THREAD_LIMIT/OMP_DYNAMIC per worker interpreter)'],
}
ASSUMPTIONS = [
    'thread interleaving inside prange is not controlled (no Cython to add hooks); the partition (worker count, chunking, thread limit) is',
    'the laminate matrix used as reference for the stresses is computed by an independent classical-lamination-theory routine (sim/refmodels.clt_abd)',
    'each object is brought to a defined state with calc_k0() first; first-call behaviour on fresh objects is C20',
    'the quadratic strain terms of the shipped kernel are a known finding (sum of per-term squares); it is matched only when the observed value equals that documented formula',
]

MODELS = ['plate_clt_donnell_bardell', 'cpanel_clt_donnell_bardell', 'plate_clt_donnell_bardell_w',
          'kpanel_clt_donnell_bardell']
FLAGS = ['u1tx', 'u1rx', 'u2tx', 'u2rx', 'v1tx', 'v1rx', 'v2tx', 'v2rx', 'w1tx', 'w1rx', 'w2tx', 'w2rx',
         'u1ty', 'u1ry', 'u2ty', 'u2ry', 'v1ty', 'v1ry', 'v2ty', 'v2ry', 'w1ty', 'w1ry', 'w2ty', 'w2ry']
STACKS = [[0, 90, 90, 0], [0, 90, -45, 45], [45, -45, 0, 90, 30], [0], [30, -30, 60], [0, 45, -45, 90, -45, 45, 0]]


def gen_flags(rng, p=0.3):
    out = {}
    for f in FLAGS:
        if rng.random() < p:
            out[f] = rng.choice([0.0, 1.0, 1.0, 0.5])
    return out


def gen_workers(rng, npts):
    pool = [1, 2, 3, 4, 5, 7, 8, 11, 13, 16, npts, npts + 1, npts + 3, max(1, npts - 1)]
    ws = [rng.choice(pool) for _ in range(rng.randint(2, 4))]
    return [max(1, min(int(w), 24)) for w in ws]


def gen_points(rng, a, b):
    kind = rng.choice(['scatter', 'scatter', 'grid2d', 'default'])
    pts = {'kind': kind, 'seed': rng.getrandbits(32), 'edges': rng.random() < 0.5,
           'layout': rng.choice(['C', 'C', 'F', 'T', 'strided']),
           'dtype': rng.choice(['float64', 'float64', 'float32', 'int', 'list']),
           'dtype_y': rng.choice([None, None, 'float64', 'float32', 'int']),
           'corner_last': rng.random() < 0.5, 'then_default': rng.random() < 0.4}
    if kind == 'scatter':
        pts['n'] = rng.choice([1, 2, 3, 5, 7, 11, 13, 17, 31, 64, 97, 101, 127, 200, rng.randint(1, 200)])
    elif kind == 'grid2d':
        pts['shape'] = [rng.randint(1, 14), rng.randint(1, 14)]
    else:
        pts['gridx'] = rng.randint(1, 14)
        pts['gridy'] = rng.randint(1, 14)
    return pts


def npoints(pts):
    if pts['kind'] == 'scatter':
        return pts['n']
    if pts['kind'] == 'grid2d':
        return pts['shape'][0] * pts['shape'][1]
    return pts['gridx'] * pts['gridy']


def gen_panel(rng, models=MODELS, mmax=14):
    model = rng.choice(models)
    d = {'model': model, 'a': rng.uniform(0.2, 4.0), 'b': rng.uniform(0.2, 4.0),
         'r': rng.choice([rng.uniform(0.5, 50.0), 1e5]), 'alphadeg': rng.uniform(1.0, 30.0),
         'm': rng.choice([1, 2, 3, 4, 5, 6, 8, rng.randint(1, mmax)]), 'n': rng.choice([1, 2, 3, 4, 5, 6, 8, rng.randint(1, mmax)]),
         'flags': gen_flags(rng), 'stack': rng.choice(STACKS), 'plyt': 1.25e-4,
         'offset': rng.choice([0.0, 0.0, 2e-4, -1e-4])}
    if rng.random() < 0.3:
        # per-ply thicknesses (repeated angles get different thicknesses)
        d['plyts'] = [rng.choice([0.5e-4, 1.25e-4, 2e-4, 3e-4]) for _ in d['stack']]
    # documented switch: the 16/26 coupling terms of the laminate matrix are set to zero for everything the panel computes
    d['force_ortho'] = rng.random() < 0.12
    return d


def generate(seed, batch):
    rng = rng_for(seed, 'C11', batch)
    scen = {'prop': PROP, 'seed': seed, 'batch': batch}
    scen['c'] = {'seed': rng.getrandbits(32), 'kind': rng.choice(['gauss', 'gauss', 'single-w', 'sparse']),
                 # amplitudes in consistent units: from a few thicknesses down to the response to a unit load in SI units
                 'scale': 10 ** rng.choice([rng.uniform(-5, -1), rng.uniform(-5, -1), rng.uniform(-13, -5), rng.uniform(-1, 2)]),
                 'layout': rng.choice(['C', 'C', 'strided', 'column', 'float32', 'list', 'readonly'])}
    scen['NLterms'] = rng.random() < 0.5
    scen['nl_type'] = rng.choice(['bool', 'bool', 'npbool', 'int', 'npint'])
    scen['reuse_buffer'] = rng.random() < 0.3
    scen['plot_between'] = rng.random() < 0.25
    scen['perm_seed'] = rng.getrandbits(32)
    if batch == 'P':
        scen['host'] = 'panel'
        scen['panel'] = gen_panel(rng)
        scen['points'] = gen_points(rng, scen['panel']['a'], scen['panel']['b'])
        scen['workers'] = gen_workers(rng, npoints(scen['points']))
        scen['calls'] = rng.sample(['uvw', 'strain', 'stress'], rng.randint(1, 3))
        scen['F_given'] = rng.random() < 0.2
        # re-definition of the laminate between two stress queries (the laminate matrix must follow the definition)
        scen['redefine_lam'] = ({'stack': rng.choice(STACKS), 'plyt': rng.choice([1.25e-4, 2e-4, 0.5e-4]),
                                 'offset': rng.choice([0.0, 1e-4, -2e-4])} if rng.random() < 0.3 else None)
    elif batch == 'A':
        scen['host'] = 'assembly'
        np_ = rng.randint(2, 4)
        base = gen_panel(rng, models=['plate_clt_donnell_bardell', 'cpanel_clt_donnell_bardell'], mmax=7)
        base['force_ortho'] = False
        panels = []
        for i in range(np_):
            d = dict(base)
            d['a'] = rng.uniform(0.3, 2.0)
            d['b'] = rng.uniform(0.3, 2.0)
            d['m'] = rng.randint(1, 6)
            d['n'] = rng.randint(1, 6)
            d['flags'] = gen_flags(rng, 0.5)
            d['group'] = rng.choice(['g1', 'g1', 'g2'])
            d['offset'] = rng.choice([0.0, 1e-4])
            panels.append(d)
        scen['panels'] = panels
        scen['group'] = rng.choice(['g1', 'g1', 'g2'])
        # group names are free text: also names that contain one another (skin / skin_aft, b1 / b10, a / ab)
        names = rng.choice([('g1', 'g2'), ('g1', 'g2'), ('skin', 'skin_aft'), ('skin_aft', 'skin'), ('b10', 'b1'), ('a', 'ab'), ('G', 'g')])
        ren = {'g1': names[0], 'g2': names[1]}
        for d in panels:
            d['group'] = ren[d['group']]
        scen['group'] = ren[scen['group']]
        scen['relabel'] = {'index': rng.randrange(4), 'to': rng.choice(list(names) + ['other'])} if rng.random() < 0.25 else None
        scen['points'] = {'kind': 'default', 'gridx': rng.randint(1, 12), 'gridy': rng.randint(1, 12), 'seed': 0,
                          'edges': True}
        scen['workers'] = gen_workers(rng, npoints(scen['points']))
        scen['calls'] = rng.sample(['uvw', 'strain', 'stress'], rng.randint(1, 3))
    elif batch == 'B':
        scen['host'] = 'bay'
        scen['bay'] = {'a': rng.uniform(0.5, 3.0), 'b': rng.uniform(0.5, 2.0),
                       'r': rng.choice([None, None, rng.uniform(2.0, 20.0)]),
                       'm': rng.randint(2, 6), 'n': rng.randint(2, 6), 'stack': rng.choice(STACKS), 'plyt': 1.25e-4,
                       'flags': gen_flags(rng, 0.2), 'npanels': rng.choice([1, 2, 2, 3]),
                       'stiffeners': []}
        kinds = rng.choice([['tstiff2d'], ['bladestiff2d'], ['tstiff2d', 'tstiff2d'], ['bladestiff1d', 'tstiff2d'],
                            ['bladestiff2d', 'tstiff2d'], ['tstiff2d', 'bladestiff2d'], ['bladestiff2d', 'bladestiff2d'],
                            ['tstiff2d', 'tstiff2d', 'tstiff2d'], ['bladestiff2d', 'tstiff2d', 'bladestiff2d'],
                            ['tstiff2d', 'bladestiff1d', 'tstiff2d']])
        for kd in kinds:
            scen['bay']['stiffeners'].append({'kind': kd, 'mb': rng.randint(2, 5), 'nb': rng.randint(2, 5),
                                             'mf': rng.randint(2, 5), 'nf': rng.randint(2, 5),
                                             'bb': rng.uniform(0.05, 0.2), 'bf': rng.uniform(0.05, 0.2)})
        scen['target'] = rng.choice(['skin', 'stiffener', 'stiffener'])
        scen['si'] = rng.randrange(len(kinds))
        scen['region'] = rng.choice(['flange', 'flange', 'base'])
        pk = rng.choice(['default', 'scatter'])
        scen['points'] = {'kind': pk, 'gridx': rng.randint(1, 10), 'gridy': rng.randint(1, 10),
                          'n': rng.choice([1, 3, 7, 13, 50, rng.randint(1, 100)]), 'seed': rng.getrandbits(32), 'edges': True}
        scen['workers'] = gen_workers(rng, npoints(scen['points']))
        scen['calls'] = ['uvw']
    else:
        raise ValueError(batch)
    return scen


def shrink_candidates(scen):
    import copy
    if len(scen.get('calls', [])) > 1:
        for q in scen['calls']:
            c = copy.deepcopy(scen)
            c['calls'] = [q]
            yield c
    if len(scen.get('workers', [])) > 1:
        for i in range(len(scen['workers'])):
            c = copy.deepcopy(scen)
            del c['workers'][i]
            yield c
    for i, w in enumerate(scen.get('workers', [])):
        for w2 in (1, 2, w // 2):
            if 1 <= w2 < w:
                c = copy.deepcopy(scen)
                c['workers'][i] = w2
                yield c
    pts = scen['points']
    if pts['kind'] == 'scatter' and pts['n'] > 1:
        for n in (1, 2, 3, pts['n'] // 2):
            if 1 <= n < pts['n']:
                c = copy.deepcopy(scen)
                c['points']['n'] = n
                yield c
    for key in ('gridx', 'gridy'):
        if pts.get(key, 1) > 1:
            c = copy.deepcopy(scen)
            c['points'][key] = max(1, pts[key] // 2)
            yield c
    if pts['kind'] == 'grid2d':
        for i in (0, 1):
            if pts['shape'][i] > 1:
                c = copy.deepcopy(scen)
                c['points']['shape'][i] = max(1, pts['shape'][i] // 2)
                yield c
    if scen['NLterms']:
        c = copy.deepcopy(scen)
        c['NLterms'] = False
        yield c
    if scen.get('redefine_lam'):
        c = copy.deepcopy(scen)
        c['redefine_lam'] = None
        yield c
    if pts.get('layout', 'C') != 'C':
        c = copy.deepcopy(scen)
        c['points']['layout'] = 'C'
        yield c
    for key, val in (('dtype', 'float64'), ('dtype_y', None), ('then_default', False), ('corner_last', False)):
        if pts.get(key, val) != val:
            c = copy.deepcopy(scen)
            c['points'][key] = val
            yield c
    if scen['c']['kind'] != 'single-w':
        c = copy.deepcopy(scen)
        c['c']['kind'] = 'single-w'
        yield c
    if scen['c'].get('layout', 'C') != 'C':
        c = copy.deepcopy(scen)
        c['c']['layout'] = 'C'
        yield c
    plist = [scen['panel']] if scen.get('host') == 'panel' else scen.get('panels', [])
    for pi, pd in enumerate(plist):
        for key in ('m', 'n'):
            if pd[key] > 1:
                c = copy.deepcopy(scen)
                tgt = c['panel'] if scen['host'] == 'panel' else c['panels'][pi]
                tgt[key] = max(1, pd[key] // 2)
                yield c
        for f in list(pd['flags']):
            c = copy.deepcopy(scen)
            tgt = c['panel'] if scen['host'] == 'panel' else c['panels'][pi]
            del tgt['flags'][f]
            yield c
    if scen.get('host') == 'assembly' and len(scen['panels']) > 2:
        for i in range(len(scen['panels'])):
            c = copy.deepcopy(scen)
            del c['panels'][i]
            yield c


# --------------------------------------------------------------------------- execution

LAMPROP = (142.5e9, 8.7e9, 0.28, 5.1e9, 5.1e9, 5.1e9)


def nl_arg(scen, nl):
    """the NLterms switch the way it comes out of user code: Python bool, numpy bool, 0/1, numpy integer"""
    import numpy as np
    t = scen.get('nl_type', 'bool')
    if t == 'npbool':
        return np.bool_(nl)
    if t == 'int':
        return int(nl)
    if t == 'npint':
        return np.int64(int(nl))
    return bool(nl)


def build_panel(d):
    from compmech.panel import Panel
    p = Panel()
    p.model = d['model']
    p.a, p.b = d['a'], d['b']
    if 'cpanel' in d['model'] or 'kpanel' in d['model']:
        p.r = d['r']
    if 'kpanel' in d['model']:
        p.alphadeg = d['alphadeg']
    p.stack = d['stack']
    if d.get('plyts'):
        p.plyts = list(d['plyts'])
        p.laminaprops = [LAMPROP for _ in d['stack']]
    else:
        p.plyt = d['plyt']
        p.laminaprop = LAMPROP
    p.m, p.n = d['m'], d['n']
    p.offset = d.get('offset', 0.0)
    for f, v in d['flags'].items():
        setattr(p, f, v)
    if 'group' in d:
        p.group = d['group']
    if d.get('force_ortho'):
        p.force_orthotropic_laminate = True
    return p


def make_c(spec, size, dofs):
    import numpy as np
    rng = np.random.Generator(np.random.PCG64([spec['seed'], size]))
    c = rng.standard_normal(size) * spec['scale']
    if spec['kind'] == 'sparse':
        c *= rng.random(size) < 0.3
    elif spec['kind'] == 'single-w':
        keep = np.zeros(size, dtype=bool)
        if dofs == 3:
            widx = np.arange(2, size, 3)
            keep[rng.choice(widx)] = True
            keep[np.arange(size) % 3 != 2] = True
        else:
            keep[rng.integers(0, size)] = True
        c *= keep
    lay = spec.get('layout', 'C')
    if lay in ('C', 'readonly'):
        # contiguous float64, handed to the kernels without a copy: it lives inside a larger buffer whose remainder holds
        # a fixed pattern, so that a read outside the vector picks up the same numbers in every interpreter
        pad = 4 * size + 64
        big = np.empty(2 * pad + size)
        big[:] = 7.0e3 + np.arange(big.size) % 13
        big[pad:pad + size] = c
        out = big[pad:pad + size]
        if lay == 'readonly':
            # e.g. a memory-mapped result file or a broadcast view: the package may refuse it, but if it answers, the
            # answer is the field of these amplitudes
            out.flags.writeable = False
        return out
    c = np.ascontiguousarray(c)
    if lay == 'strided':
        big = np.zeros(2 * size)
        big[::2] = c
        return big[::2]                      # non-contiguous float64 view
    if lay == 'column':
        mat = np.zeros((size, 3))
        mat[:, 1] = c
        return mat[:, 1]                     # a column of a C-ordered matrix (like eigvecs[:, k])
    if lay == 'float32':
        return c.astype(np.float32)
    if lay == 'list':
        return [float(v) for v in c]
    return c


def make_points(pts, a, b):
    import numpy as np
    rng = np.random.Generator(np.random.PCG64([pts['seed'], 17]))
    if pts['kind'] == 'scatter':
        n = pts['n']
        xs = rng.uniform(0, a, n)
        ys = rng.uniform(0, b, n)
    elif pts['kind'] == 'grid2d':
        shp = tuple(pts['shape'])
        xs = rng.uniform(0, a, shp)
        ys = rng.uniform(0, b, shp)
    else:
        return None, None
    if pts.get('edges'):
        flat_x, flat_y = xs.reshape(-1), ys.reshape(-1)
        k = flat_x.shape[0]
        for i, (ex, ey) in enumerate([(0., 0.), (a, b), (0., b), (a, 0.), (a / 2, 0.)]):
            if i < k and rng.random() < 0.6:
                j = int(rng.integers(0, k))
                flat_x[j], flat_y[j] = ex, ey
    if pts.get('corner_last'):
        xs.reshape(-1)[-1], ys.reshape(-1)[-1] = a, b      # a point set that ends at the far corner, like a grid does
    dt = pts.get('dtype', 'float64')
    dty = pts.get('dtype_y') or dt
    if dt == 'list' and xs.ndim == 1:
        return [float(v) for v in xs], [float(v) for v in ys]

    def cast(arr, kind, lim):
        if kind == 'float32':
            return arr.astype(np.float32)
        if kind == 'int':
            # integer coordinates inside the domain (0, 1, 2, ... <= lim)
            return np.minimum(np.floor(arr), np.floor(lim)).astype(np.int64)
        return arr
    xs, ys = cast(xs, dt, a), cast(ys, dty if dty != 'list' else 'float64', b)
    return relayout(xs, pts.get('layout', 'C')), relayout(ys, pts.get('layout', 'C'))


def relayout(arr, layout):
    """same values, same shape, different memory layout (Fortran order, transposed view, strided view)"""
    import numpy as np
    if layout == 'F':
        return np.asfortranarray(arr)
    if layout == 'T' and arr.ndim == 2:
        return np.ascontiguousarray(arr.T).T          # C-contiguous transpose viewed back: F-ordered view
    if layout == 'strided':
        big = np.zeros(tuple(2 * n for n in arr.shape), dtype=arr.dtype)
        view = big[tuple(slice(None, None, 2) for _ in arr.shape)]
        view[...] = arr
        return view
    return arr


def default_grid(a, b, gridx, gridy):
    import numpy as np
    xs = np.linspace(0, a, gridx)
    ys = np.linspace(0, b, gridy)
    xs, ys = np.meshgrid(xs, ys, copy=True)
    return xs, ys


def compare(name, got, ref, tol, inv, ctx, floor=0.0):
    import numpy as np
    got = np.asarray(got, dtype=float)
    refv = np.asarray(ref, dtype=np.longdouble).reshape(got.shape)
    tolv = np.asarray(tol, dtype=np.longdouble).reshape(got.shape) + floor
    err = np.abs(got.astype(np.longdouble) - refv)
    bad = ~(err <= tolv)
    if np.any(bad):
        idx = int(np.argmax(bad.ravel()))
        d = dict(ctx)
        d.update({'quantity': name, 'index': idx, 'got': float(got.ravel()[idx]), 'expected': float(refv.ravel()[idx]),
                  'tolerance': float(tolv.ravel()[idx]), 'why': 'value differs from the Ritz series / kinematics'})
        raise Violation(inv, d)


def same_bytes(name, a, b, inv, ctx):
    import numpy as np
    a = np.ascontiguousarray(a)
    b = np.ascontiguousarray(b)
    if a.shape != b.shape or a.tobytes() != b.tobytes():
        d = dict(ctx)
        d['quantity'] = name
        if a.shape == b.shape:
            with np.errstate(all='ignore'):
                diff = np.abs(a - b)
            fin = np.isfinite(diff)
            d['maxdiff'] = float(diff[fin].max()) if fin.any() else None
            d['index'] = int(np.argmax(np.where(fin, diff, -1.0))) if fin.any() else int(np.argmax(~fin.ravel()))
            d['nonfinite'] = int((~fin).sum())
        else:
            d['shapes'] = [list(a.shape), list(b.shape)]
        raise Violation(inv, d)


UVW = ['u', 'v', 'w', 'phix', 'phiy']
STRAINS = ['exx', 'eyy', 'gxy', 'kxx', 'kyy', 'kxy']
STRESSES = ['Nxx', 'Nyy', 'Nxy', 'Mxx', 'Myy', 'Mxy']


def reference_for(obj, c, xs, ys, dofs, r, nl, F):
    """{quantity: {name: (val, tol)}}, wrong-formula dict for strains, wrong-formula dict for stresses"""
    import numpy as np
    from . import refmodels as rm
    sf = rm.SeriesField(obj, c, xs, ys, dofs=dofs)
    out = {'uvw': rm.displacement_reference(sf)}
    wrongs = {}
    if dofs == 3:
        for flag in (False, True):
            st, wrong = rm.strain_reference(sf, r, flag)
            out[('strain', flag)] = st
            wrongs[('strain', flag)] = wrong
            if F is not None:
                Fl = np.asarray(F, dtype=np.longdouble)
                res = {}
                wres = {'tol': {}}
                for i, nm in enumerate(STRESSES):
                    val = sum(Fl[i, j] * st[k][0] for j, k in enumerate(STRAINS))
                    # entries of the laminate matrix agree between two correct implementations only to rounding relative
                    # to sqrt(F_ii*F_jj) (the coupling block of a symmetric laminate is rounding noise, not zero)
                    tol = sum(abs(Fl[i, j]) * st[k][1] + (1e-11 * abs(Fl[i, j]) + 1e-12 * np.sqrt(abs(Fl[i, i] * Fl[j, j]))) * np.abs(st[k][0])
                              for j, k in enumerate(STRAINS))
                    res[nm] = (val, tol * 2)
                    if wrong is not None:
                        wres[nm] = sum(Fl[i, j] * (wrong[k] if k in wrong else st[k][0]) for j, k in enumerate(STRAINS))
                        wres['tol'][nm] = 2 * sum(abs(Fl[i, j]) * (wrong['tol'][k] if k in wrong['tol'] else st[k][1])
                                                  + (1e-11 * abs(Fl[i, j]) + 1e-12 * np.sqrt(abs(Fl[i, i] * Fl[j, j])))
                                                  * np.abs(wrong[k] if k in wrong else st[k][0])
                                                  for j, k in enumerate(STRAINS))
                out[('stress', flag)] = res
                wrongs[('stress', flag)] = wres if wrong is not None else None
    return out, wrongs


def check_against_reference(qname, names, got, ref, wrong, ctx, res):
    """G1 with the narrow known-finding matcher for the non-linear strain terms."""
    import numpy as np
    try:
        for nm in names:
            compare(nm, got[nm], ref[nm][0], ref[nm][1], 'G1-series', ctx)
    except Violation as v:
        if wrong:
            # does the observed field equal the documented wrong formula (sum of per-term squares)?
            ok = True
            for nm in names:
                val = wrong.get(nm, ref[nm][0])
                wtol = wrong.get('tol', {}).get(nm, ref[nm][1])
                try:
                    compare(nm, got[nm], val, wtol, 'G1-series', ctx)
                except Violation:
                    ok = False
                    break
            if ok:
                v.detail['matches_documented_per_term_square_formula'] = True
                v.known_id = 'C11-NL-cross-terms'
        raise


def run_panel_like(scen, res, log, obj, caller, c, xs, ys, dofs, r, F, set_workers, ctx, real_c=None):
    """obj: object with Panel-like geometry attributes; caller(q, c, xs, ys, nl) -> dict of arrays."""
    import numpy as np
    nl = scen['NLterms']
    refs, wrongs = reference_for(obj, c, xs, ys, dofs, r, nl, F)
    perm_rng = np.random.Generator(np.random.PCG64([scen['perm_seed'], 3]))
    npts = int(np.asarray(xs).size)
    csha, xsha, ysha = sha_bytes(np.asarray(c).tobytes()), sha_bytes(np.ascontiguousarray(xs).tobytes()), sha_bytes(np.ascontiguousarray(ys).tobytes())
    for q in scen['calls']:
        if q != 'uvw' and dofs != 3:
            continue
        names = UVW if q == 'uvw' else (STRAINS if q == 'strain' else STRESSES)
        base = None
        for wi, w in enumerate(scen['workers']):
            set_workers(w)
            ctx2 = dict(ctx, quantity_call=q, workers=w, npoints=npts)
            try:
                got = caller(q, c, xs, ys, nl)
            except Violation:
                raise
            except Exception as e:
                bump(res['exceptions'], '%s_%s' % (q, type(e).__name__))
                log.add('raised', q, w, type(e).__name__)
                if base is not None and base != 'raised':
                    raise Violation('G3-workers', dict(ctx2, why='raises for this worker count but not for %d' % scen['workers'][0],
                                                       exception=repr(e)[:200]))
                base = 'raised'
                continue
            if base == 'raised':
                raise Violation('G3-workers', dict(ctx2, why='returns for this worker count but raised for %d' % scen['workers'][0]))
            for nm in names:
                if np.asarray(got[nm]).shape != np.asarray(xs).shape:
                    raise Violation('G1-shape', dict(ctx2, name=nm, shape=list(np.asarray(got[nm]).shape),
                                                     expected=list(np.asarray(xs).shape)))
            res['steps'] += 1
            if npts % w:
                bump(res['probes'], 'padding_branch')
            if w > npts:
                bump(res['probes'], 'workers_exceed_points')
            key = 'uvw' if q == 'uvw' else (q, nl)
            if base is None:
                base = got
                log.add('call', q, w, [sha_bytes(np.ascontiguousarray(got[nm]).tobytes()) for nm in names])
                check_against_reference(q, names, got, refs[key], wrongs.get(key), ctx2, res)
                bump(res['probes'], 'G1_checked_' + q)
            else:
                for nm in names:
                    same_bytes(nm, got[nm], base[nm], 'G3-workers', dict(ctx2, why='result differs from the result for %d workers' % scen['workers'][0]))
                bump(res['probes'], 'G3_checked')
        if base is None or base == 'raised':
            continue
        if sha_bytes(np.asarray(c).tobytes()) != csha or sha_bytes(np.ascontiguousarray(xs).tobytes()) != xsha or \
                sha_bytes(np.ascontiguousarray(ys).tobytes()) != ysha:
            raise Violation('G6-inputs', dict(ctx, why='amplitudes or point arrays passed in were modified', quantity_call=q))
        # G2 permutation equivariance and G4 single-point calls (explicit point sets only)
        if scen['points']['kind'] != 'default' and npts > 1 and 'no_explicit_points' not in ctx:
            w = scen['workers'][-1]
            set_workers(w)
            shape = np.asarray(xs).shape
            perm = perm_rng.permutation(npts)
            xp = np.ascontiguousarray(np.asarray(xs).reshape(-1)[perm].reshape(shape))
            yp = np.ascontiguousarray(np.asarray(ys).reshape(-1)[perm].reshape(shape))
            gotp = caller(q, c, xp, yp, nl)
            for nm in names:
                same_bytes(nm, np.asarray(gotp[nm]).reshape(-1), np.asarray(base[nm]).reshape(-1)[perm], 'G2-order',
                           dict(ctx, quantity_call=q, workers=w, why='permuting the points does not permute the result'))
            bump(res['probes'], 'G2_checked')
            for j in perm_rng.choice(npts, size=min(3, npts), replace=False):
                x1 = np.array([np.asarray(xs).reshape(-1)[j]])
                y1 = np.array([np.asarray(ys).reshape(-1)[j]])
                got1 = caller(q, c, x1, y1, nl)
                for nm in names:
                    same_bytes(nm, np.asarray(got1[nm]).reshape(-1), np.asarray(base[nm]).reshape(-1)[j:j + 1], 'G4-count',
                               dict(ctx, quantity_call=q, workers=w, index=int(j),
                                    why='a single-point call differs from the same point inside a larger call'))
            bump(res['probes'], 'G4_checked')
            if npts == 1:
                bump(res['probes'], 'single_point')
    # G9: the caller re-uses its amplitude buffer - the SAME array object, new content of equal norm (an eigenmode with its
    # sign flipped in place).  The displacement field is linear in the amplitudes, and negation is exact in floating point:
    # the new field must be exactly minus the old one.
    rc = c if real_c is None else real_c
    if scen.get('reuse_buffer') and real_c is not False and isinstance(rc, np.ndarray) and rc.dtype == np.float64 and rc.flags.writeable:
        set_workers(scen['workers'][0])
        try:
            first = caller('uvw', c, xs, ys, nl)
        except Violation:
            raise
        except Exception:
            first = None
        if first is not None:
            keep = {nm: np.array(first[nm], dtype=float, copy=True) for nm in UVW}
            twin_c = rc is not c and isinstance(c, np.ndarray) and not np.shares_memory(rc, c)
            rc *= -1.0
            if twin_c:
                c *= -1.0
            try:
                second = caller('uvw', c, xs, ys, nl)
                for nm in UVW:
                    if not np.array_equal(np.asarray(second[nm], dtype=float), -keep[nm]):
                        raise Violation('G9-buffer-reuse', dict(ctx, quantity=nm, quantity_call='uvw',
                                                                why='after the amplitude array was negated in place, the reported field is not '
                                                                    'minus the previous one (the result does not follow the content of the array)'))
            finally:
                rc *= -1.0
                if twin_c:
                    c *= -1.0
            bump(res['probes'], 'G9_buffer_reuse_checked')


def execute(scen):
    import os
    import numpy as np
    from compmech.panel import modelDB as pdb

    res = Result.new(PROP, scen.get('seed'))
    res['components'] = COMPONENTS
    log = EventLog()
    host = scen['host']
    ompenv = 'limit%s' % os.environ.get('OMP_THREAD_LIMIT', '-') + ('dyn' if os.environ.get('OMP_DYNAMIC') else '')
    sigs = []
    try:
        if host == 'panel':
            d = scen['panel']
            p = build_panel(d)
            p.calc_k0(silent=True)
            dofs = pdb.db[p.model]['dofs']
            c = make_c(scen['c'], p.get_size(), dofs)
            xs, ys = make_points(scen['points'], p.a, p.b)
            pts = scen['points']
            # laminate matrix from an independent classical-lamination-theory computation (not from compmech.composite)
            from .refmodels import clt_abd
            plyts_ = list(d['plyts']) if d.get('plyts') else [d['plyt']] * len(d['stack'])
            F = clt_abd(d['stack'], plyts_, [LAMPROP] * len(d['stack']), d.get('offset', 0.0)) if p.F is not None else None
            if F is not None and d.get('force_ortho'):
                F = np.array(F, dtype=float)
                for i_, j_ in ((0, 2), (1, 2), (0, 5), (1, 5), (3, 2), (4, 2), (3, 5), (4, 5)):
                    F[i_, j_] = F[j_, i_] = 0.0
                bump(res['probes'], 'forced_orthotropic_laminate')
            if F is not None and np.abs(F - np.array(p.F, dtype=float)).max() > 1e-10 * np.abs(F).max():
                bump(res['probes'], 'package_laminate_matrix_differs_from_CLT')
            Fgiven = None
            if scen.get('F_given') and F is not None:
                Fgiven = F * 1.5 + np.triu(np.ones_like(F), 1) * F[0, 0] * 1e-3  # unsymmetric table supplied by the caller
            if xs is None:
                gx, gy = default_grid(p.a, p.b, pts['gridx'], pts['gridy'])
            else:
                gx, gy = xs, ys

            def caller(q, c_, xs_, ys_, nl):
                kw = {}
                if xs is None and xs_ is gx:
                    kw = dict(gridx=pts['gridx'], gridy=pts['gridy'])
                else:
                    kw = dict(xs=xs_, ys=ys_)
                if q == 'uvw':
                    out = p.uvw(c_, **kw)
                    return dict(zip(UVW, out))
                if q == 'strain':
                    return p.strain(c_, NLterms=nl_arg(scen, nl), **kw)
                return p.stress(c_, F=Fgiven, NLterms=nl_arg(scen, nl), **kw)

            def set_workers(w):
                p.out_num_cores = w
            if 'kpanel' in d['model'] and any(q != 'uvw' for q in scen['calls']):
                bump(res['probes'], 'conical_strain_requested(raises consistently)')
            ctx = {'host': 'panel', 'model': d['model']}
            run_panel_like(scen, res, log, p, caller, c, gx, gy, dofs, p.r, Fgiven if Fgiven is not None else F,
                           set_workers, ctx)
            if pts['kind'] == 'grid2d' and scen.get('plot_between') and xs is not None and np.asarray(xs).ndim == 2 \
                    and min(np.asarray(xs).shape) >= 2 and isinstance(xs, np.ndarray) and xs.dtype == np.float64:
                # G10: a deformed contour plot on the caller's own 2-D point arrays between two field queries: the arrays and
                # the fields reported for them stay what they were
                import matplotlib
                matplotlib.use('Agg')
                import matplotlib.pyplot as plt
                set_workers(scen['workers'][0])
                try:
                    before = caller('uvw', c, xs, ys, False)
                except Violation:
                    raise
                except Exception:
                    before = None
                if before is not None:
                    keepb = {nm: np.array(before[nm], copy=True) for nm in UVW}
                    hx, hy = sha_bytes(np.ascontiguousarray(xs).tobytes()), sha_bytes(np.ascontiguousarray(ys).tobytes())
                    try:
                        p.plot(c, vec='w', xs=xs, ys=ys, deform_u=True, deform_u_sf=30., filename='g10.png', dpi=20)
                    except Exception as e:
                        bump(res['exceptions'], 'plot_' + type(e).__name__)
                    finally:
                        plt.close('all')
                    if sha_bytes(np.ascontiguousarray(xs).tobytes()) != hx or sha_bytes(np.ascontiguousarray(ys).tobytes()) != hy:
                        raise Violation('G6-inputs', dict(ctx, why='a deformed contour plot modified the point arrays passed in', quantity_call='plot'))
                    after = caller('uvw', c, xs, ys, False)
                    for nm in UVW:
                        same_bytes(nm, after[nm], keepb[nm], 'G10-plot-between', dict(ctx, quantity_call='uvw',
                                   why='the field reported for the same amplitudes and points changed after a contour plot'))
                    bump(res['probes'], 'G10_plot_between_checked')
            if pts['kind'] == 'grid2d' and pts.get('then_default') and xs is not None:
                # a default-grid query right after an explicit 2-D query of the same shape on the same object:
                # nothing of the previous point set may be reused
                gy_n, gx_n = np.asarray(xs).shape
                dgx, dgy = default_grid(p.a, p.b, gx_n, gy_n)
                p.out_num_cores = scen['workers'][0]
                refs3, wrongs3 = reference_for(p, c, dgx, dgy, dofs, p.r, scen['NLterms'], F)
                for q in scen['calls']:
                    if q != 'uvw' and (dofs != 3 or 'kpanel' in d['model']):
                        continue
                    if q == 'uvw':
                        got3 = dict(zip(UVW, p.uvw(c, gridx=gx_n, gridy=gy_n)))
                        names3, key3 = UVW, 'uvw'
                    elif q == 'strain':
                        got3 = p.strain(c, gridx=gx_n, gridy=gy_n, NLterms=scen['NLterms'])
                        names3, key3 = STRAINS, ('strain', scen['NLterms'])
                        same_bytes('x', got3['x'], dgx, 'G8-default-grid', dict(ctx, why='x returned for the default grid is not the default grid'))
                    else:
                        if Fgiven is not None:
                            continue
                        got3 = p.stress(c, gridx=gx_n, gridy=gy_n, NLterms=scen['NLterms'])
                        names3, key3 = STRESSES, ('stress', scen['NLterms'])
                    try:
                        check_against_reference(q, names3, got3, refs3[key3], wrongs3.get(key3),
                                                dict(ctx, quantity_call=q, after='explicit 2-D points of the same shape'), res)
                    except Violation as v:
                        if not getattr(v, 'known_id', None):
                            v.invariant = 'G8-default-grid'
                        raise
                bump(res['probes'], 'G8_default_after_explicit_checked')
            rl = scen.get('redefine_lam')
            if rl and dofs == 3 and 'kpanel' not in d['model']:
                import compmech.composite.laminate as laminate
                p.stack = list(rl['stack'])
                p.plyts = [rl['plyt'] for _ in rl['stack']]
                p.laminaprops = [LAMPROP for _ in rl['stack']]
                p.plyt = rl['plyt']
                p.offset = rl['offset']
                Fnew = clt_abd(p.stack, p.plyts, p.laminaprops, p.offset)
                if d.get('force_ortho'):
                    Fnew = np.array(Fnew, dtype=float)
                    for i_, j_ in ((0, 2), (1, 2), (0, 5), (1, 5), (3, 2), (4, 2), (3, 5), (4, 5)):
                        Fnew[i_, j_] = Fnew[j_, i_] = 0.0
                p.out_num_cores = scen['workers'][0]
                got = caller('stress', c, gx, gy, scen['NLterms']) if Fgiven is None else None
                if got is not None:
                    refs2, wrongs2 = reference_for(p, c, gx, gy, dofs, p.r, scen['NLterms'], Fnew)
                    key = ('stress', scen['NLterms'])
                    try:
                        check_against_reference('stress', STRESSES, got, refs2[key], wrongs2.get(key),
                                                dict(ctx, quantity_call='stress', after='laminate re-defined'), res)
                    except Violation as v:
                        if not getattr(v, 'known_id', None):
                            v.invariant = 'G7-redefinition'
                        raise
                    bump(res['probes'], 'G7_laminate_redefinition_checked')
            for q in scen['calls']:
                for w in scen['workers']:
                    sigs.append('panel/%s/%s/w%d/r%d/%s/nl%d/%s' % (d['model'][:6], q, w, npoints(pts) % w, pts['kind'],
                                                                   int(scen['NLterms']), ompenv))
            res['nontrivial'] = any(npoints(pts) % w or w > npoints(pts) for w in scen['workers'])
        elif host == 'assembly':
            from compmech.panel.assembly import PanelAssembly
            panels = [build_panel(d) for d in scen['panels']]
            asm = PanelAssembly(panels)
            if scen.get('relabel') is not None:
                # the group label is a plain attribute of the member panels; changing it after the assembly exists is legal
                rl = scen['relabel']
                panels[rl['index'] % len(panels)].group = rl['to']
                bump(res['probes'], 'group_relabelled_after_assembly')
            for p in panels:
                p.calc_k0(silent=True)
            size = asm.get_size()
            c = make_c(scen['c'], size, 3)
            pts = scen['points']
            group = scen['group']
            members = [p for p in panels if p.group == group]
            nl = scen['NLterms']
            csha = sha_bytes(np.asarray(c).tobytes())
            for q in scen['calls']:
                names = UVW if q == 'uvw' else (STRAINS if q == 'strain' else STRESSES)
                base = None
                for w in scen['workers']:
                    asm.out_num_cores = w
                    if q == 'uvw':
                        got = asm.uvw(c, group, gridx=pts['gridx'], gridy=pts['gridy'])
                    elif q == 'strain':
                        got = asm.strain(c, group, gridx=pts['gridx'], gridy=pts['gridy'], NLterms=nl_arg(scen, nl))
                    else:
                        got = asm.stress(c, group, gridx=pts['gridx'], gridy=pts['gridy'], NLterms=nl_arg(scen, nl))
                    res['steps'] += 1
                    if len(got[names[0]]) != len(members):
                        raise Violation('G5-slices', {'why': 'number of result blocks differs from the number of panels in the group',
                                                      'blocks': len(got[names[0]]), 'panels': len(members)})
                    if base is None:
                        base = got
                        for bi, p in enumerate(members):
                            gx, gy = default_grid(p.a, p.b, pts['gridx'], pts['gridy'])
                            cp = np.asarray(c, dtype=float)[p.col_start:p.col_end]
                            from .refmodels import clt_abd
                            pdx = scen['panels'][panels.index(p)]
                            plyts_ = list(pdx['plyts']) if pdx.get('plyts') else [pdx['plyt']] * len(pdx['stack'])
                            Fp = clt_abd(pdx['stack'], plyts_, [LAMPROP] * len(pdx['stack']), pdx.get('offset', 0.0))
                            refs, wrongs = reference_for(p, cp, gx, gy, 3, p.r, nl, Fp)
                            key = 'uvw' if q == 'uvw' else (q, nl)
                            blk = {nm: got[nm][bi] for nm in names}
                            ctx = {'host': 'assembly', 'panel_index': panels.index(p), 'group': group, 'workers': w,
                                   'quantity_call': q}
                            for nm in ('x', 'y'):
                                same_bytes(nm, got[nm][bi], gx if nm == 'x' else gy, 'G5-slices', dict(ctx, why='coordinates returned differ from the panel grid'))
                            for nm in names:
                                if np.asarray(blk[nm]).shape != gx.shape:
                                    raise Violation('G1-shape', dict(ctx, name=nm, shape=list(np.asarray(blk[nm]).shape)))
                            try:
                                check_against_reference(q, names, blk, refs[key], wrongs.get(key), ctx, res)
                            except Violation as v:
                                if not getattr(v, 'known_id', None):
                                    v.invariant = 'G5-slices' if len(members) > 1 or len(panels) > 1 else v.invariant
                                raise
                        bump(res['probes'], 'G5_checked_' + q)
                        if len(members) >= 2:
                            bump(res['probes'], 'assembly_group_with_2+_panels')
                        log.add('call', q, w, [[sha_bytes(np.ascontiguousarray(b).tobytes()) for b in got[nm]] for nm in names])
                    else:
                        for nm in names:
                            for bi in range(len(members)):
                                same_bytes(nm, got[nm][bi], base[nm][bi], 'G3-workers',
                                           {'host': 'assembly', 'workers': w, 'quantity_call': q,
                                            'why': 'result differs from the result for %d workers' % scen['workers'][0]})
                        bump(res['probes'], 'G3_checked')
                    sigs.append('asm/%s/w%d/r%d/n%d/nl%d/%s' % (q, w, npoints(pts) % w, len(members), int(nl), ompenv))
                if sha_bytes(np.asarray(c).tobytes()) != csha:
                    raise Violation('G6-inputs', {'why': 'amplitude vector was modified', 'quantity_call': q})
            res['nontrivial'] = True
        elif host == 'bay':
            execute_bay(scen, res, log, sigs, ompenv)
        else:
            raise HarnessError('host')
    except Violation as v:
        settle(res, v, getattr(v, 'known_id', None))
    except ValueError as e:
        # a read-only amplitude vector may be refused by the kernels ("buffer source array is read-only"); that is a
        # consistent answer, not a field.  Anything else is the harness' problem.
        if scen['c'].get('layout') == 'readonly' and 'read-only' in str(e):
            bump(res['exceptions'], 'readonly_vector_refused')
            log.add('refused', 'read-only amplitude vector')
        else:
            raise
    res['signature'] = sorted(set(sigs))[:6]
    res['digest'] = log.digest()
    return res


def execute_bay(scen, res, log, sigs, ompenv):
    import numpy as np
    from compmech.stiffpanelbay import StiffPanelBay
    from compmech.stiffener import BladeStiff1D, BladeStiff2D, TStiff2D
    bd = scen['bay']
    bay = StiffPanelBay()
    bay.a, bay.b, bay.r = bd['a'], bd['b'], bd['r']
    bay.m, bay.n = bd['m'], bd['n']
    bay.stack = bd['stack']
    bay.plyt = bd['plyt']
    bay.laminaprop = LAMPROP
    bay.mu = 1.3e3
    bay.model = 'plate_clt_donnell_bardell' if bd['r'] is None else 'cpanel_clt_donnell_bardell'
    for f, v in bd['flags'].items():
        setattr(bay, f, v)
    npan = bd['npanels']
    nst = len(bd['stiffeners'])
    # strips: stiffeners sit on strip boundaries
    cuts = [bay.b * (i + 1) / (nst + 1) for i in range(nst)]
    edges = [0.0] + cuts + [bay.b]
    for i in range(len(edges) - 1):
        bay.add_panel(y1=edges[i], y2=edges[i + 1], plyt=bay.plyt)
    for sd, ys in zip(bd['stiffeners'], cuts):
        kw = dict(ys=ys, bb=sd['bb'], bf=sd['bf'], bstack=[0, 90, 90, 0], bplyt=bay.plyt, blaminaprop=LAMPROP,
                  fstack=[0, 90, 90, 0], fplyt=bay.plyt, flaminaprop=LAMPROP)
        if sd['kind'] == 'tstiff2d':
            bay.add_tstiff2d(mb=sd['mb'], nb=sd['nb'], mf=sd['mf'], nf=sd['nf'], **kw)
        elif sd['kind'] == 'bladestiff2d':
            bay.add_bladestiff2d(mf=sd['mf'], nf=sd['nf'], **kw)
        else:
            bay.add_bladestiff1d(**kw)
    bay.calc_k0(silent=True)
    size = bay.get_size()
    c = make_c(scen['c'], size, 3)
    pts = scen['points']
    # layout of the global vector as calc_k0 assembles it: skin, blade2d flanges, then T base+flange
    offs = {}
    pos = 3 * bay.m * bay.n
    for s in bay.bladestiff2ds:
        offs[(id(s), 'flange')] = (pos, pos + s.flange.get_size())
        pos += s.flange.get_size()
    for s in bay.tstiff2ds:
        offs[(id(s), 'base')] = (pos, pos + s.base.get_size())
        pos += s.base.get_size()
        offs[(id(s), 'flange')] = (pos, pos + s.flange.get_size())
        pos += s.flange.get_size()
    if scen['target'] == 'skin':
        comp, lo, hi, width = bay, 0, 3 * bay.m * bay.n, bay.b
        ctx = {'host': 'bay', 'target': 'skin'}

        def caller(q, c_, xs_, ys_, nl):
            if xs_ is None:
                out = bay.uvw_skin(c_, gridx=pts['gridx'], gridy=pts['gridy'])
            else:
                out = bay.uvw_skin(c_, xs=xs_, ys=ys_)
            return dict(zip(UVW, out))
    else:
        st = bay.stiffeners[scen['si']]
        region = scen['region']
        ctx = {'host': 'bay', 'target': 'stiffener', 'si': scen['si'], 'region': region, 'kind': type(st).__name__,
               'stiffeners': [type(s).__name__ for s in bay.stiffeners]}

        def caller(q, c_, xs_, ys_, nl):
            if xs_ is None:
                out = bay.uvw_stiffener(c_, scen['si'], region=region, gridx=pts['gridx'], gridy=pts['gridy'])
            else:
                out = bay.uvw_stiffener(c_, scen['si'], region=region, xs=xs_, ys=ys_)
            return dict(zip(UVW, out))
        if isinstance(st, BladeStiff1D) or (isinstance(st, BladeStiff2D) and region == 'base'):
            comp = None
        else:
            comp = st.base if region == 'base' else st.flange
            lo, hi = offs[(id(st), region)]
            width = comp.b
    if comp is None:
        # the method refuses these combinations in every history; make sure it does
        try:
            caller('uvw', c, None, None, False)
        except Exception as e:
            bump(res['exceptions'], 'refused_' + type(e).__name__)
            res['signature'] = 'bay/refused'
            return
        raise Violation('G5-slices', dict(ctx, why='documented unsupported stiffener region returned a field'))
    if pts['kind'] == 'default':
        gx, gy = default_grid(bay.a, width, pts['gridx'], pts['gridy'])
        explicit = False
    else:
        rng = np.random.Generator(np.random.PCG64([pts['seed'], 19]))
        gx = np.ascontiguousarray(rng.uniform(0, bay.a, pts['n']))
        gy = np.ascontiguousarray(rng.uniform(0, width, pts['n']))
        explicit = True

    def set_workers(w):
        bay.out_num_cores = w

    def caller2(q, c_, xs_, ys_, nl):
        if not explicit and xs_ is gx:
            return caller(q, c_, None, None, nl)
        return caller(q, c_, xs_, ys_, nl)

    class Slice(object):
        """geometry of the component, amplitudes = the slice the global layout assigns to it"""
    scen2 = dict(scen)
    scen2['calls'] = ['uvw']
    if not explicit:
        ctx['no_explicit_points'] = True
    # reference uses the component's own slice of the global vector
    cslice = np.array(np.asarray(c, dtype=float)[lo:hi], dtype=float, copy=True)

    def caller3(q, c_, xs_, ys_, nl):
        return caller2(q, c, xs_, ys_, nl)
    try:
        run_panel_like(scen2, res, log, comp, caller3, cslice, gx, gy, 3, None, None, set_workers, ctx,
                       real_c=c if isinstance(c, np.ndarray) else False)   # (False: the caller's vector is not an array, no G9)
    except Violation as v:
        if v.invariant == 'G1-series':
            v.invariant = 'G5-slices'
            v.detail['why'] = 'field of this component is not the series of its own slice of the amplitude vector'
        raise
    bump(res['probes'], 'bay_' + ('skin' if scen['target'] == 'skin' else 'stiffener_' + scen['region']))
    for w in scen['workers']:
        sigs.append('bay/%s/%s/w%d/r%d/%s/%s' % (scen['target'], '+'.join(s['kind'][:2] for s in bd['stiffeners']), w,
                                                 int(np.asarray(gx).size) % w, pts['kind'], ompenv))
    res['nontrivial'] = True
