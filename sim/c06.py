"""C06 - frequency solver returns true eigenpairs of (K, M), ascending, on both paths.

System under simulation: compmech.analysis.freq and Panel.freq (real ARPACK eigs / LAPACK eig,
real remove_null_cols and re-insertion bookkeeping).  The simulator owns the ARPACK start vector
and a fault plan for the eigs call (there is no retry: a fault must surface as an exception and
leave the caller's matrices untouched).  Oracle: dense symmetric reference eigh(K_act, M_act).
"""
from .core import Result, Violation, HarnessError, EventLog, bump, rng_for, sha_bytes, settle

PROP = 'C06'
TIMEOUT = 900
BATCHES = {
    'quick': [('F0', 2600), ('FI', 500), ('M', 200)],
    'thorough': [('F0', 160000), ('FI', 30000), ('M', 10000)],
}
CHUNK = {'F0': 40, 'FI': 40, 'M': 6}
COST = {'F0': 1, 'FI': 1, 'M': 5}
RULE = ('scenario = (implementation in {analysis.freq sparse, dense, dense+reduced_dof, Panel.freq sparse/dense}, pair (K SPD on '
        'active amplitudes, M SPD/diagonal/identity on the same amplitudes, random null rows, clustered or spread spectrum, '
        'lowest frequency scaled to 1e-2..1e4 rad/s; or a package panel model), num_eigvalues, sort flag, ARPACK start-vector '
        'class+seed, fault plan for the eigs call, mass scale s). Non-trivial = null rows present or dense path or clustered '
        'spectrum or near-tied frequencies (two returned values within 0.1 rad/s) or a fault fired; distinct = distinct '
        '(implementation, path, sort, null?, mass kind, clustered?, near-tie?, fault kind, start-vector class, outcome).')
COMPONENTS = {
    'real': ['compmech.analysis.freq.freq', 'compmech.panel.Panel.freq (atype 3/4)', 'compmech.sparse.remove_null_cols',
             'scipy.sparse.linalg.eigs (ARPACK)', 'scipy.linalg.eig (LAPACK)', 'batch M: Panel.calc_k0/calc_kM/calc_kG0 kernels'],
    'stub': ['ARPACK start vector (supplied by the simulator)', 'injected eigs failures',
             'batches F0/FI with Panel.freq: calc_k0/calc_kM replaced by ones returning the generated pair'],
}
ASSUMPTIONS = [
    'ascending order (F3) and lowest-k agreement (F5) are demanded only with sort=True (the switch exists to turn ordering off)',
    'K and M share their null rows/columns, as the package models produce them',
    'exceptions (shape errors when fewer than num_eigvalues values exist, reduced_dof on the dense path) are counted, not flagged',
    'copies of exactly degenerate frequencies missed by ARPACK are a known finding (KNOWN_FINDINGS.json), everything else is still compared',
]


def generate(seed, batch):
    rng = rng_for(seed, 'C06', batch)
    scen = {'prop': PROP, 'seed': seed, 'batch': batch}
    scen['v0'] = {'cls': rng.choice(['gauss', 'gauss', 'const', 'alt', 'ramp', 'spike']), 'seed': rng.getrandbits(40)}
    scen['faults'] = []
    scen['second_v0'] = rng.random() < 0.25
    scen['sort'] = rng.random() < 0.85
    scen['mass_scale'] = rng.choice([None, None, 10 ** rng.uniform(-2, 2), 10 ** rng.uniform(-14, 4)])
    scen['cross_path'] = rng.random() < 0.4
    scen['second_pair'] = rng.random() < 0.3
    # an earlier analysis in the same process that asked for a loose solver tolerance (result not judged)
    scen['loose_first'] = 10 ** rng.uniform(-3, -1) if rng.random() < 0.15 else None
    scen['np_scalars'] = rng.random() < 0.3
    scen['minimal_kwargs'] = rng.random() < 0.5
    # an earlier analysis in the same process that spelled out other options than the judged one (result not judged)
    scen['other_options_first'] = rng.random() < 0.2
    if batch in ('F0', 'FI'):
        n = rng.choice([6, 8, 12, 20, 30, 45, 60, 90, 120, rng.randint(6, 200), rng.randint(6, 400)])
        scen['impl'] = rng.choice(['analysis', 'analysis', 'panel'])
        scen['sparse'] = rng.random() < 0.65
        scen['reduced_dof'] = (not scen['sparse']) and rng.random() < 0.08
        scen['src'] = 'random'
        scen['mat'] = {
            'n': n, 'nnull': rng.choice([0, 0, 1, 2, 3, rng.randint(0, max(0, n // 3))]),
            'density': rng.choice([1.0, 0.5, 0.2, 0.1]), 'cond_exp': rng.choice([0.3, 1.0, 2.0, 4.0]),
            'clustered': rng.random() < 0.3, 'chain': rng.random() < 0.12, 'mass': rng.choice(['spd', 'spd', 'diag', 'identity']),
            'mseed': rng.getrandbits(40), 'w_min': 10 ** rng.uniform(-2, 3),
            'mass_mag': rng.choice([1.0, 1.0, 10 ** rng.uniform(-15, 3)]),
            'mass_spread': rng.choice([0, 0, 0, 0, rng.uniform(2.0, 8.0), rng.uniform(7.5, 9.5)]),
        }
        scen['k'] = rng.choice([1, 2, 3, 5, 10, 25, rng.randint(1, 25)])
        if batch == 'FI':
            scen['faults'] = [{'call': 1, 'kind': rng.choice(
                ['ArpackNoConvergence', 'ArpackError', 'SingularFactor', 'MemoryError', 'ValueError'])}]
            scen['sparse'] = True
            scen['reduced_dof'] = False
    elif batch == 'M' and rng.random() < 0.3:
        # matrices of multi-component models (assembly, stiffened bay), solved by analysis.freq
        from . import c20 as _c20
        kind = rng.choice(['assembly', 'bay'])
        sub = _c20.generate(rng.getrandbits(48), 'A' if kind == 'assembly' else 'B')
        scen['src'] = 'model'
        scen['impl'] = 'analysis'
        scen['sparse'] = rng.random() < 0.6
        scen['reduced_dof'] = False
        scen['k'] = rng.choice([1, 2, 3, 5])
        scen['model'] = {'kind': kind, 'defn': sub['defn'], 'atype': 4, 'flags': {}, 'm': 0, 'n': 0}
        if kind == 'assembly':
            for pd in scen['model']['defn']['panels']:
                pd['mu'] = 1.3e3
        else:
            scen['model']['defn']['mu'] = 1.3e3
    elif batch == 'M':
        scen['src'] = 'model'
        scen['impl'] = rng.choice(['analysis', 'panel'])
        scen['sparse'] = rng.random() < 0.6
        scen['reduced_dof'] = False
        scen['k'] = rng.choice([1, 2, 3, 5, 8])
        flags = {}
        for f in ['u1tx', 'u1rx', 'u2tx', 'u2rx', 'v1tx', 'v1rx', 'v2tx', 'v2rx', 'w1tx', 'w1rx', 'w2tx', 'w2rx',
                  'u1ty', 'u1ry', 'u2ty', 'u2ry', 'v1ty', 'v1ry', 'v2ty', 'v2ry', 'w1ty', 'w1ry', 'w2ty', 'w2ry']:
            if rng.random() < 0.2:
                flags[f] = float(rng.choice([0, 1]))
        scen['model'] = {
            'model': rng.choice(['plate_clt_donnell_bardell', 'plate_clt_donnell_bardell_w',
                                 'cpanel_clt_donnell_bardell', 'kpanel_clt_donnell_bardell']),
            'a': rng.uniform(0.3, 3.0), 'b': rng.uniform(0.3, 3.0), 'r': rng.uniform(1.0, 20.0),
            'alphadeg': rng.uniform(0.0, 30.0),
            'stack': rng.choice([[0, 90, 90, 0], [0, 90, -45, 45], [45, -45, 0, 90, 30], [0], [30, -30, 60]]),
            'plyt': 1.25e-4, 'm': rng.choice([2, 3, 4, 5, 6, 11, 12]), 'n': rng.choice([2, 3, 4, 5, 6, 11]), 'flags': flags,
            'mu': 10 ** rng.uniform(0, 4), 'offset': rng.choice([0.0, 0.0, 1e-4, -2e-4]),
            'atype': rng.choice([4, 4, 3, 3]), 'Nxx': rng.choice([0.0, 0.0, -1.0, -20.0, 5.0]),
            # pre-stress states with transverse and shear components, also shear alone
            'Nyy': rng.choice([0.0, 0.0, -5.0, 3.0]), 'Nxy': rng.choice([0.0, 0.0, 10.0, -25.0]),
        }
        scen['redefine_mu'] = rng.choice([None, None, 4.0, 0.25])
        if rng.random() < 0.15:
            scen['faults'] = [{'call': 1, 'kind': rng.choice(['ArpackNoConvergence', 'ArpackError', 'MemoryError'])}]
    else:
        raise ValueError(batch)
    return scen


def shrink_candidates(scen):
    import copy
    if scen.get('faults'):
        c = copy.deepcopy(scen)
        c['faults'] = []
        yield c
    for key, val in (('mass_scale', None), ('cross_path', False), ('reduced_dof', False), ('second_v0', False), ('redefine_mu', None), ('second_pair', False), ('loose_first', None), ('np_scalars', False), ('minimal_kwargs', False), ('other_options_first', False)):
        if scen.get(key) not in (val,):
            c = copy.deepcopy(scen)
            c[key] = val
            yield c
    if scen.get('v0', {}).get('cls') != 'gauss':
        c = copy.deepcopy(scen)
        c['v0']['cls'] = 'gauss'
        yield c
    if scen.get('k', 1) > 1:
        for k in (1, 2, scen['k'] // 2):
            if 0 < k < scen['k']:
                c = copy.deepcopy(scen)
                c['k'] = k
                yield c
    if scen.get('src') == 'random':
        m = scen['mat']
        for n in (6, 8, 12, m['n'] // 2, m['n'] - 1):
            if 6 <= n < m['n']:
                c = copy.deepcopy(scen)
                c['mat']['n'] = n
                c['mat']['nnull'] = min(m['nnull'], max(0, n - 4))
                c['k'] = min(scen['k'], max(1, n - 3))
                yield c
        if m['nnull'] > 0:
            for nn in (0, 1, m['nnull'] // 2):
                if nn < m['nnull']:
                    c = copy.deepcopy(scen)
                    c['mat']['nnull'] = nn
                    yield c
        for key, val in (('clustered', False), ('density', 1.0), ('cond_exp', 0.3), ('mass', 'identity'), ('mass_mag', 1.0)):
            if m.get(key) != val:
                c = copy.deepcopy(scen)
                c['mat'][key] = val
                yield c
        if scen['impl'] != 'analysis':
            c = copy.deepcopy(scen)
            c['impl'] = 'analysis'
            yield c
    else:
        mo = scen['model']
        for key in ('m', 'n'):
            if mo.get('kind') not in ('assembly', 'bay') and mo[key] > 2:
                c = copy.deepcopy(scen)
                c['model'][key] = mo[key] - 1
                yield c
        for f in list(mo.get('flags', {})):
            c = copy.deepcopy(scen)
            del c['model']['flags'][f]
            yield c


# --------------------------------------------------------------------------- execution

def build_panel(scen):
    from compmech.panel import Panel
    mo = scen['model']
    p = Panel()
    p.model = mo['model']
    p.a, p.b = mo['a'], mo['b']
    if 'cpanel' in mo['model'] or 'kpanel' in mo['model']:
        p.r = mo['r']
    if 'kpanel' in mo['model']:
        p.alphadeg = mo['alphadeg']
    p.stack = mo['stack']
    p.plyt = mo['plyt']
    p.laminaprop = (142.5e9, 8.7e9, 0.28, 5.1e9, 5.1e9, 5.1e9)
    p.m, p.n = mo['m'], mo['n']
    p.mu = mo['mu']
    p.offset = mo['offset']
    p.Nxx = mo['Nxx']
    if mo.get('Nyy'):
        p.Nyy = mo['Nyy']
    if mo.get('Nxy'):
        p.Nxy = mo['Nxy']
    for f, v in mo['flags'].items():
        setattr(p, f, v)
    return p


def call_impl(scen, K, M, k, sparse, sort, reduced, obj=None, tol=0):
    impl = scen['impl']
    if scen.get('np_scalars'):
        # counts and switches that come out of numpy computations (np.int64, np.bool_, np.float64) instead of Python literals
        import numpy as _np
        k, sparse, sort, tol = _np.int64(k), _np.bool_(sparse), _np.bool_(sort), _np.float64(tol)
    if impl == 'analysis':
        from compmech.analysis import freq
        kw = dict(tol=tol, sparse_solver=sparse, silent=True, sort=sort, reduced_dof=reduced, num_eigvalues=k)
        if scen.get('minimal_kwargs'):
            # only what differs from the documented defaults is spelled out
            for name_, dflt in (('tol', 0), ('sparse_solver', True), ('sort', True), ('reduced_dof', False), ('num_eigvalues', 25)):
                if kw[name_] == dflt:
                    del kw[name_]
        return freq(K, M, **kw)
    if impl == 'panel':
        from compmech.panel import Panel
        if obj is None:
            p = Panel()

            def calc_k0(**kw):
                p.k0 = K
                return K

            def calc_kM(**kw):
                p.kM = M
                return M
            p.calc_k0 = calc_k0
            p.calc_kM = calc_kM
            atype = 4
        else:
            p = obj
            atype = scen['model']['atype']
        p.num_eigvalues = k
        p.freq(atype=atype, tol=tol, sparse_solver=sparse, silent=True, sort=sort, reduced_dof=reduced)
        return p.eigvals, p.eigvecs
    raise HarnessError('impl ' + str(impl))


def check_result(scen, Kd, Md, active, vals, vecs, k, sparse, sort, ref, log, res, tag=''):
    import numpy as np
    from .eig import compare_sorted_with_multiplicity
    n = Kd.shape[0]
    w_ref = ref['w']
    vals = np.asarray(vals)
    vecs = np.asarray(vecs)
    if vecs.ndim != 2 or vecs.shape[0] != n:
        raise Violation('F4-shape' + tag, {'why': 'mode matrix has %s rows for %d amplitudes' % (vecs.shape, n)})
    null = np.setdiff1d(np.arange(n), active)
    if len(null) and np.any(vecs[null, :] != 0):
        raise Violation('F4-zeros' + tag, {'why': 'mode is non-zero on massless/stiffnessless amplitudes', 'null': null[:8].tolist()})
    nK = np.linalg.norm(Kd)
    nM = np.linalg.norm(Md)

    def pbound(w):
        # omega^2 is an eigenvalue of the definite pencil (K, M): perturbation bound under 1e-12 relative backward error
        # plus the resolution of the shift-invert transform around sigma=-1, w'=1/(omega^2+1)
        w2, w2min = abs(w) ** 2, float(ref['w'][0]) ** 2
        # and ARPACK's stopping rule |bound| <= eps*max(eps^(2/3), |theta|): for omega^2 >> 1e10 the transformed
        # values theta = 1/(omega^2+1) are below eps^(2/3) and are only converged to ~eps^(5/3)*(omega^2+1) relative
        return 0.5e-12 * (nK / max(w2, 1e-300) + nM) / ref['mmin'] + \
            2e-15 * ref["condKM"] * (w2 + 1) ** 2 / (max(w2, 1e-300) * (w2min + 1)) + 1e-25 * (w2 + 1)

    def rtol(w):
        return min(1e-4, max(1e-7, pbound(w)))

    def ill(w):
        return pbound(w) > 1e-4
    rtol.ill = ill

    npairs = min(len(vals), vecs.shape[1])
    if not sparse and len(vals) != vecs.shape[1]:
        raise Violation('F1-pairing' + tag, {'why': 'number of frequencies and modes differ', 'values': int(len(vals)),
                                            'modes': int(vecs.shape[1])})
    for i in range(npairs):
        w = complex(vals[i])
        if not np.isfinite(w.real) or not np.isfinite(w.imag):
            raise Violation('F2-real-positive' + tag, {'why': 'non-finite frequency', 'index': i})
        if abs(w.imag) > 1e-8 * abs(w) or not (w.real > 0):
            raise Violation('F2-real-positive' + tag, {'why': 'frequency is not real and positive', 'index': i,
                                                       'value': [w.real, w.imag]})
        v = vecs[:, i]
        nv = np.linalg.norm(v)
        if not (nv > 0) or not np.all(np.isfinite(v)):
            raise Violation('F1-eigenpair' + tag, {'why': 'zero or non-finite mode', 'index': i})
        r = np.linalg.norm(Kd.dot(v) - (w.real ** 2) * Md.dot(v))
        # solver precision: 1e-8 relative backward error, relaxed by ARPACK's stopping rule for tiny transformed values
        # ... and by the conditioning of the shifted matrix K + M that the sparse path factorises (masses spread over many
        # decades): the back-transformed residual carries ~eps*cond(K+M), never accepted beyond 1e-4
        bound = max(1e-8, 4e-26 * (w.real ** 2 + 1) if sparse else 0.0,
                    min(1e-4, 2e-15 * ref['condKM']) if sparse else 0.0) * (nK + w.real ** 2 * nM) * nv
        if not (r <= bound):
            raise Violation('F1-eigenpair' + tag, {'why': 'K v - omega^2 M v is not zero to solver precision', 'index': i,
                                                   'omega': w.real, 'residual': float(r), 'bound': float(bound)})
    re = np.array([complex(x).real for x in vals], dtype=float)
    # every returned value is a true frequency, one-to-one
    refl = list(w_ref)
    for g in re:
        if ill(g):
            bump(res['probes'], 'value_check_skipped_ill_conditioned')
            continue
        tol = rtol(g) * abs(g)
        j = None
        for jj, rr in enumerate(refl):
            if abs(rr - g) <= tol and (j is None or abs(rr - g) < abs(refl[j] - g)):
                j = jj
        if j is None:
            raise Violation('F1-value' + tag, {'why': 'returned frequency is not an eigenfrequency of the pair (or is returned '
                                                      'more often than its multiplicity)', 'omega': float(g)})
        del refl[j]
    if sort:
        got = re
        # F5 count: with sort on, the analysis only drops frequencies at or below its documented absolute cut-off of 1e-6
        # rad/s; every reference frequency a decade above it (and determined by the data to better than 30 % at rounding level) must still
        # be there - all of them on the dense path, the k lowest on the sparse path.  This holds however ill-conditioned
        # the values are, so it is checked before the value comparison is allowed to give up.
        nwant = len(w_ref) if not sparse else min(k, len(w_ref))
        mi = ref.get('mi')

        def determined(i):
            # rounding-level (2e-15 n) normwise backward error moves this frequency by less than 30 %
            x2 = max(float(w_ref[i]) ** 2, 1e-300)
            return 2e-15 * n * (nK / x2 + nM) / max(float(mi[i]), 1e-300) < 0.3
        n_exp = sum(1 for i in range(nwant) if w_ref[i] >= 1e-5 and determined(i)) if mi is not None and len(mi) == len(w_ref) else 0
        if not scen.get('reduced_dof') and len(got) < n_exp:
            raise Violation('F5-count' + tag, {'why': 'frequencies above the cut-off of 1e-6 rad/s are missing from the result',
                                               'returned': int(len(got)), 'expected_at_least': int(n_exp),
                                               'lowest_reference': [float(x) for x in w_ref[:4]],
                                               'lowest_returned': [float(x) for x in got[:4]]})
        if any(ill(x) for x in list(got) + list(w_ref[:len(got)])):
            bump(res['probes'], 'F5_skipped_ill_conditioned')
            asc = bool(np.all(np.diff(got) >= -1e-9 * np.abs(got[1:]))) if len(got) > 1 else True
            if not asc:
                raise Violation('F3-ascending' + tag, {'why': 'not ascending', 'got': [float(x) for x in got[:8]]})
            status = 'ok'
        else:
            status, info = compare_sorted_with_multiplicity(got, w_ref, rtol)
        if status != 'ok':
            info = dict(info)
            # classify plain mis-ordering separately from wrong content
            asc = bool(np.all(np.diff(got) >= -2 * np.array([rtol(x) for x in got[1:]]) * np.abs(got[1:]))) if len(got) > 1 else True
            info.update({'got': [float(x) for x in got[:8]], 'expected': [float(x) for x in w_ref[:8]],
                         'degenerate_undercount': status == 'undercount', 'ascending': asc})
            raise Violation(('F3-ascending' if not asc else 'F5-lowest') + tag, info)
        bump(res['probes'], 'F3_F5_checked')
        if len(got) > 1 and np.min(np.diff(got)) < 0.1:
            bump(res['probes'], 'near_tie_within_0.1_rad_s')
    log.add('result' + tag, sha_bytes(np.ascontiguousarray(re).tobytes()), [int(x) for x in vecs.shape])
    return rtol


def execute(scen):
    import numpy as np
    import sys
    from scipy.sparse import csr_matrix
    from scipy.linalg import eigh
    import compmech.panel._panel as m_panel
    from . import eig
    import compmech.analysis  # noqa
    m_freq = sys.modules['compmech.analysis.freq']

    res = Result.new(PROP, scen.get('seed'))
    res['components'] = COMPONENTS
    log = EventLog()
    k = scen['k']
    sparse = scen['sparse']
    sort = scen['sort']
    reduced = scen.get('reduced_dof', False)
    obj = None
    seam = eig.SolverSeam(scen, res, log, names=('eigs',))
    try:
        if scen['src'] == 'random':
            Kd, Md, active = eig.make_pair_freq(scen['mat'])
        else:
            if scen['model'].get('kind') in ('assembly', 'bay'):
                from . import c20 as _c20
                obj = _c20.build(scen['model']['kind'], scen['model']['defn'])
                bump(res['probes'], 'model_kind_' + scen['model']['kind'])
            else:
                obj = build_panel(scen)
            K0 = obj.calc_k0(silent=True)
            M0 = obj.calc_kM(silent=True)
            Kd, Md = K0.toarray(), M0.toarray()
            if scen['model']['atype'] == 3:
                Kd = Kd + obj.calc_kG0(silent=True).toarray()
            active = np.where(np.abs(Kd).sum(axis=0) != 0)[0]
            act_m = np.where(np.abs(Md).sum(axis=0) != 0)[0]
            if not np.array_equal(active, act_m):
                # stiffness and mass of one package model are assembled from the same flags and offsets: amplitudes
                # with mass but no stiffness (or the converse) make every frequency result of this model meaningless
                raise Violation('F8-pattern', {'why': 'mass and stiffness matrix of the same package model do not share their active amplitudes',
                                               'model': scen['model'].get('kind', scen['model'].get('model')),
                                               'mass_without_stiffness': int(len(np.setdiff1d(act_m, active))),
                                               'stiffness_without_mass': int(len(np.setdiff1d(active, act_m)))})
            if np.abs(Kd - Kd.T).max() > 1e-12 * np.abs(Kd).max() or np.abs(Md - Md.T).max() > 1e-12 * np.abs(Md).max():
                raise Violation('F8-pattern', {'why': 'stiffness or mass matrix of a package model is not symmetric'})
            ok = len(active) >= 3 and eig.is_pd(Kd[np.ix_(active, active)]) \
                and eig.is_pd(Md[np.ix_(active, active)])
            if not ok:
                bump(res['probes'], 'precondition_not_met(K or M not PD on common active amplitudes)')
                res['digest'] = log.digest()
                res['signature'] = 'skip'
                return res
        n = Kd.shape[0]
        Ka = Kd[np.ix_(active, active)]
        Ma = Md[np.ix_(active, active)]
        if scen['src'] == 'random' and not (eig.is_pd(Ka) and eig.is_pd(Ma)):
            # generated pairs with masses spread over many decades can be numerically indefinite: outside the property's
            # precondition (and the dense reference would be meaningless)
            bump(res['probes'], 'precondition_not_met(generated K or M not PD to 1e-10)')
            res['digest'] = log.digest()
            res['signature'] = 'skip'
            return res
        w2, V_ref = eigh(Ka, Ma)
        w_ref = np.sqrt(np.maximum(w2, 0.0))
        # modal mass of each reference mode for a unit-length mode vector (sharpens the perturbation bound mode by mode)
        mi_ref = np.einsum('ij,ij->j', V_ref, Ma.dot(V_ref)) / np.maximum(np.einsum('ij,ij->j', V_ref, V_ref), 1e-300)
        ekm = np.linalg.eigvalsh(Ka + Ma)
        ek = np.linalg.eigvalsh(Ka)
        # conditioning that limits the shift-invert resolution: of the shifted matrix K+M and of K itself
        ref = {'w': w_ref, 'mmin': float(np.linalg.eigvalsh(Ma).min()), 'mi': mi_ref,
               'condKM': float(max(ekm.max() / ekm.min(), ek.max() / max(ek.min(), 1e-300)))}
        K = csr_matrix(Kd)
        M = csr_matrix(Md)
        before = (K.data.tobytes(), M.data.tobytes(), K.indices.tobytes(), M.indices.tobytes())
        log.add('pair', n, int(len(active)), k, bool(sparse), bool(sort), scen['impl'])
        seam.install([m_freq, m_panel])
        outcome = None
        if scen.get('other_options_first') and scen['impl'] == 'analysis':
            saved_faults, seam.faults = seam.faults, {}
            try:
                call_impl(dict(scen, minimal_kwargs=False), K, M, 3 if k != 3 else 4, not sparse, not sort, False)
            except Exception as e:
                bump(res['exceptions'], 'other_options_first_' + type(e).__name__)
            seam.faults, seam.calls, seam.modes = saved_faults, 0, []
            bump(res['probes'], 'call_with_other_options_first')
        if scen.get('loose_first'):
            saved_faults, seam.faults = seam.faults, {}
            try:
                call_impl(scen, K, M, k, sparse, sort, reduced, obj=obj if scen['impl'] == 'panel' else None, tol=scen['loose_first'])
            except Exception as e:
                bump(res['exceptions'], 'loose_first_' + type(e).__name__)
            seam.faults, seam.calls, seam.modes = saved_faults, 0, []
            bump(res['probes'], 'loose_tolerance_call_first')
        try:
            vals, vecs = call_impl(scen, K, M, k, sparse, sort, reduced, obj=obj if scen['impl'] == 'panel' else None)
            outcome = 'returned'
        except Violation:
            raise
        except Exception as e:
            outcome = 'raised'
            bump(res['exceptions'], type(e).__name__)
            log.add('raised', type(e).__name__)
        ncalls = seam.calls
        if (K.data.tobytes(), M.data.tobytes(), K.indices.tobytes(), M.indices.tobytes()) != before:
            raise Violation('F0-inputs', {'why': 'the analysis modified the matrices passed in'})
        injected = sorted(set(f['kind'] for f in scen.get('faults', []) if f['call'] <= ncalls))
        if injected and outcome == 'returned':
            # there is no retry: a failed solver call cannot have produced a result
            raise Violation('F7-fault-surfaces', {'why': 'the solver call failed (injected) but the analysis returned a result',
                                                  'fault': injected})
        if outcome == 'returned':
            bump(res['probes'], 'returned_result')
            rtol = check_result(scen, Kd, Md, active, vals, vecs, k, sparse, sort, ref, log, res)
            seam.faults = {}
            re = np.array([complex(x).real for x in vals], dtype=float)
            if sort and scen.get('cross_path') and not reduced:
                try:
                    vals2, vecs2 = call_impl(scen, K, M, k, not sparse, sort, False, obj=obj)
                except Exception as e:
                    bump(res['exceptions'], 'cross_' + type(e).__name__)
                else:
                    check_result(scen, Kd, Md, active, vals2, vecs2, k, not sparse, sort, ref, log, res, tag='(other-path)')
                    bump(res['probes'], 'F5_paths_checked')
            if scen.get('second_pair') and scen['src'] == 'random':
                # a second analysis of the same size and mode count but with other null rows, in the same process: its
                # modes must be zero on ITS null amplitudes, and what the first analysis returned must not change
                first_sha = (sha_bytes(np.ascontiguousarray(vals).tobytes()), sha_bytes(np.ascontiguousarray(vecs).tobytes()))
                mat2 = dict(scen['mat'])
                mat2['mseed'] = scen['mat']['mseed'] ^ 0x9E3779B9
                mat2['nnull'] = max(1, min(scen['mat']['n'] // 4, scen['mat']['nnull'] + 2))
                K2d, M2d, act2 = eig.make_pair_freq(mat2)
                Ka2, Ma2 = K2d[np.ix_(act2, act2)], M2d[np.ix_(act2, act2)]
                e2 = np.linalg.eigvalsh(Ka2 + Ma2)
                e2k = np.linalg.eigvalsh(Ka2)
                refp = {'w': np.sqrt(np.maximum(eigh(Ka2, Ma2, eigvals_only=True), 0.0)), 'mmin': float(np.linalg.eigvalsh(Ma2).min()),
                        'condKM': float(max(e2.max() / e2.min(), e2k.max() / max(e2k.min(), 1e-300)))}
                try:
                    vals6, vecs6 = call_impl(scen, csr_matrix(K2d), csr_matrix(M2d), k, sparse, sort, reduced)
                except Exception as e:
                    bump(res['exceptions'], 'second_pair_' + type(e).__name__)
                else:
                    check_result(scen, K2d, M2d, act2, vals6, vecs6, k, sparse, sort, refp, log, res, tag='(second-pair)')
                    bump(res['probes'], 'second_pair_checked')
                if (sha_bytes(np.ascontiguousarray(vals).tobytes()), sha_bytes(np.ascontiguousarray(vecs).tobytes())) != first_sha:
                    raise Violation('F9-result-altered', {'why': 'the arrays returned by the first analysis were modified by a later analysis'})
            if scen.get('second_v0'):
                seam.scen = dict(scen, v0={'cls': 'gauss', 'seed': scen['v0']['seed'] ^ 0x5DEECE66D})
                try:
                    vals4, vecs4 = call_impl(scen, K, M, k, sparse, sort, reduced, obj=obj)
                except Exception as e:
                    bump(res['exceptions'], 'second_v0_' + type(e).__name__)
                else:
                    check_result(scen, Kd, Md, active, vals4, vecs4, k, sparse, sort, ref, log, res, tag='(other-start-vector)')
                    bump(res['probes'], 'second_start_vector_checked')
                seam.scen = scen
            if scen['src'] == 'model' and scen['impl'] == 'panel' and scen.get('redefine_mu') and obj is not None:
                # the same Panel analysed again after its density (and ply thickness) was re-defined
                fac = scen['redefine_mu']
                scen2 = dict(scen)
                scen2['model'] = dict(scen['model'])
                scen2['model']['mu'] = scen['model']['mu'] * fac
                fresh = build_panel(scen2)
                K2 = fresh.calc_k0(silent=True).toarray()
                M2 = fresh.calc_kM(silent=True).toarray()
                if scen['model']['atype'] == 3:
                    K2 = K2 + fresh.calc_kG0(silent=True).toarray()
                obj.mu = scen2['model']['mu']
                Ka2, Ma2 = K2[np.ix_(active, active)], M2[np.ix_(active, active)]
                ekm2 = np.linalg.eigvalsh(Ka2 + Ma2)
                ek2 = np.linalg.eigvalsh(Ka2)
                ref2 = {'w': np.sqrt(np.maximum(eigh(Ka2, Ma2, eigvals_only=True), 0.0)), 'mmin': float(np.linalg.eigvalsh(Ma2).min()),
                        'condKM': float(max(ekm2.max() / ekm2.min(), ek2.max() / max(ek2.min(), 1e-300)))}
                try:
                    vals5, vecs5 = call_impl(scen, None, None, k, sparse, sort, reduced, obj=obj)
                except Exception as e:
                    bump(res['exceptions'], 'redefined_' + type(e).__name__)
                else:
                    check_result(scen, K2, M2, active, vals5, vecs5, k, sparse, sort, ref2, log, res, tag='(after-redefinition)')
                    bump(res['probes'], 'redefinition_checked')
            s = scen.get('mass_scale')
            if s and sort and scen['src'] == 'random' and w_ref.min() / np.sqrt(s) > 1e-4:
                try:
                    vals3, vecs3 = call_impl(scen, K, csr_matrix(Md * s), k, sparse, sort, reduced)
                except Exception as e:
                    bump(res['exceptions'], 'scaled_' + type(e).__name__)
                else:
                    ekm_s = np.linalg.eigvalsh(Ka + Ma * s)
                    ref_s = {'w': w_ref / np.sqrt(s), 'mmin': ref['mmin'] * s,
                             'condKM': float(max(ekm_s.max() / ekm_s.min(), ek.max() / max(ek.min(), 1e-300)))}
                    check_result(scen, Kd, Md * s, active, vals3, vecs3, k, sparse, sort, ref_s, log, res, tag='(scaled-mass)')
                    bump(res['probes'], 'F6_checked')
        pr = res['probes']
        if len(active) < n:
            bump(pr, 'null_columns_present')
        bump(pr, 'dense_path' if not sparse else 'sparse_path')
        bump(pr, 'impl_' + scen['impl'])
        if reduced:
            bump(pr, 'reduced_dof')
        if not sort:
            bump(pr, 'sort_off')
        if k > n - 2:
            bump(pr, 'k_exceeds_size_minus_2')
        clustered = scen.get('mat', {}).get('clustered', False)
        tie = bool(outcome == 'returned' and len(vals) > 1 and
                   np.min(np.abs(np.diff(np.sort(np.array([complex(x).real for x in vals]))))) < 0.1)
        res['nontrivial'] = bool(len(active) < n or not sparse or clustered or injected or tie)
        res['signature'] = '%s/%s/%s/%s/%s/%s/%s/%s/%s/%s/%s' % (
            scen['impl'], scen['src'], 'sparse' if sparse else ('dense-red' if reduced else 'dense'),
            'sort' if sort else 'nosort', 'null' if len(active) < n else 'full',
            scen.get('mat', {}).get('mass', scen.get('model', {}).get('model', '')), 'clu' if clustered else 'spr',
            'tie' if tie else 'notie', '+'.join(injected) or 'nofault', scen['v0']['cls'], outcome)
        res['steps'] = ncalls
    except Violation as v:
        kid = None
        if v.invariant.startswith('F5-lowest') and v.detail.get('degenerate_undercount'):
            kid = 'C06-degenerate-multiplicity'
        settle(res, v, kid)
    finally:
        seam.remove()
    res['digest'] = log.digest()
    return res
