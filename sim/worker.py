"""Worker interpreter: generates and executes scenarios against the real code.

Started by sim.driver as `python -m sim.worker`; talks JSON lines on the
original stdout (fd saved before the code under test can print to it).
"""
import faulthandler
import importlib
import json
import os
import shutil
import sys
import tempfile
import traceback
import warnings


def _protocol_channel():
    # keep a private copy of the pipe to the driver, then point fd 1 at /dev/null so
    # neither compmech's logger nor a C extension can corrupt the protocol
    out = os.fdopen(os.dup(1), 'w', buffering=1)
    devnull = os.open(os.devnull, os.O_WRONLY)
    os.dup2(devnull, 1)
    sys.stdout = open(os.devnull, 'w')
    return out


def load_prop(prop):
    return importlib.import_module('sim.' + prop.lower())


def run_one(mod, scenario):
    from .core import Result, HarnessError
    try:
        res = mod.execute(scenario)
    except HarnessError as e:
        res = Result.new(scenario.get('prop'), scenario.get('seed'))
        res['verdict'] = 'error'
        res['detail'] = {'harness_error': str(e), 'tb': traceback.format_exc()[-3000:]}
    except MemoryError:
        raise
    except Exception as e:  # an oracle/harness bug must never look like a violation
        res = Result.new(scenario.get('prop'), scenario.get('seed'))
        res['verdict'] = 'error'
        res['detail'] = {'harness_exception': repr(e), 'tb': traceback.format_exc()[-3000:]}
    return res


def main():
    out = _protocol_channel()
    faulthandler.enable(file=sys.stderr)
    warnings.simplefilter('ignore')
    os.environ.setdefault('MPLBACKEND', 'Agg')
    tmp = tempfile.mkdtemp(prefix='verifw-', dir=os.environ.get('VERIF_TMPROOT') or None)
    os.chdir(tmp)
    try:
        for line in sys.stdin:
            line = line.strip()
            if not line:
                continue
            req = json.loads(line)
            op = req.get('op')
            if op == 'quit':
                break
            timeout = req.get('timeout')
            if timeout:
                faulthandler.dump_traceback_later(timeout, exit=True, file=sys.stderr)
            results = []
            if op == 'run':
                mod = load_prop(req['prop'])
                for batch, seed in req['seeds']:
                    scen = mod.generate(seed, batch)
                    res = run_one(mod, scen)
                    if req.get('want_scen') or res['verdict'] != 'ok':
                        res['scenario'] = scen
                    results.append(res)
            elif op == 'exec':
                mod = load_prop(req['scenario']['prop'])
                res = run_one(mod, req['scenario'])
                results.append(res)
            elif op == 'exec_seq':
                # a process history: the scenarios one after the other in this interpreter
                for scen in req['scenarios']:
                    mod = load_prop(scen['prop'])
                    results.append(run_one(mod, scen))
            elif op == 'ping':
                results.append({'pong': True, 'pid': os.getpid()})
            if timeout:
                faulthandler.cancel_dump_traceback_later()
            out.write(json.dumps({'id': req.get('id'), 'results': results}, allow_nan=True) + '\n')
            out.flush()
    finally:
        os.chdir('/')
        shutil.rmtree(tmp, ignore_errors=True)


if __name__ == '__main__':
    main()
