"""Child interpreter for world L of C20 (one scenario per process)."""
import json
import os
import sys
import warnings


def main():
    warnings.simplefilter('ignore')
    scen = json.loads(sys.stdin.read())
    real_out = os.fdopen(os.dup(1), 'w')
    devnull = os.open(os.devnull, os.O_WRONLY)
    os.dup2(devnull, 1)
    sys.stdout = open(os.devnull, 'w')
    from sim import c20
    res = c20.execute_laminate(scen)
    real_out.write(json.dumps(dict(res), allow_nan=True) + '\n')
    real_out.flush()


if __name__ == '__main__':
    main()
