"""Batch driver: worker pool of fresh interpreters, batch loop, shrinking, replay, evidence.

Never imports compmech/numpy (libgomp must only ever be loaded inside workers whose
environment the driver has fixed).
"""
import importlib
import json
import os
import selectors
import shutil
import tempfile
import subprocess
import sys
import time

from . import core
from .core import derive_seed, jdump, VERIF_DIR, PYTHON

OMP_ENVS = [
    {},
    {'OMP_THREAD_LIMIT': '1'},
    {'OMP_THREAD_LIMIT': '3'},
    {'OMP_DYNAMIC': 'true'},
]


def worker_env(index, hashseed, extra_path=None, tmproot=None):
    env = dict(os.environ)
    for k in list(env):
        if k.startswith('OMP_') or k.startswith('GOMP_'):
            del env[k]
    env.update(OMP_ENVS[index % len(OMP_ENVS)])
    env['OMP_WAIT_POLICY'] = 'passive'
    env['OPENBLAS_NUM_THREADS'] = '1'
    env['MKL_NUM_THREADS'] = '1'
    env['MPLBACKEND'] = 'Agg'
    env['PYTHONHASHSEED'] = str(hashseed)
    env['PYTHONDONTWRITEBYTECODE'] = '1'
    env['COMPMECH_VERIF'] = '1'
    if tmproot:
        env['VERIF_TMPROOT'] = tmproot
    path = [VERIF_DIR]
    if extra_path:
        path.insert(0, extra_path)
    if env.get('VERIF_OVERLAY'):
        path.insert(0, env['VERIF_OVERLAY'])
    env['PYTHONPATH'] = os.pathsep.join(path)
    return env


class Worker(object):
    def __init__(self, index, hashseed, extra_path=None, stderr_path=None, tmproot=None):
        self.tmproot = tmproot
        self.index = index
        self.hashseed = hashseed
        self.extra_path = extra_path
        self.stderr_path = stderr_path
        self.proc = None
        self.task = None
        self.deadline = None
        self.lineage = []
        self.start()

    def start(self):
        err = open(self.stderr_path, 'ab') if self.stderr_path else subprocess.DEVNULL
        self.proc = subprocess.Popen(
            [PYTHON, '-m', 'sim.worker'], stdin=subprocess.PIPE, stdout=subprocess.PIPE,
            stderr=err, env=worker_env(self.index, self.hashseed, self.extra_path, self.tmproot),
            cwd=VERIF_DIR, bufsize=0)
        if err is not subprocess.DEVNULL:
            err.close()
        self.buf = b''
        self.task = None
        self.deadline = None
        # what this interpreter has executed so far, in order: part of the schedule when the code under test keeps
        # state at process level
        self.lineage = []

    def send(self, task, timeout):
        self.task = task
        self.deadline = time.monotonic() + timeout
        req = dict(task['req'])
        req['timeout'] = int(timeout) + 5
        self.proc.stdin.write((json.dumps(req, allow_nan=True) + '\n').encode())
        self.proc.stdin.flush()

    def kill(self):
        try:
            self.proc.kill()
        except Exception:
            pass
        try:
            self.proc.wait(timeout=10)
        except Exception:
            pass
        for f in (self.proc.stdin, self.proc.stdout):
            try:
                f.close()
            except Exception:
                pass

    def close(self):
        try:
            self.proc.stdin.write(b'{"op":"quit"}\n')
            self.proc.stdin.flush()
            self.proc.stdin.close()
            self.proc.wait(timeout=10)
        except Exception:
            self.kill()
        try:
            self.proc.stdout.close()
        except Exception:
            pass


class Pool(object):
    """Runs request dicts on W worker interpreters; one request in flight per worker."""

    def __init__(self, nworkers, hashseed=0, extra_path=None, stderr_path=None):
        self.stderr_path = stderr_path
        self.tmproot = tempfile.mkdtemp(prefix='verif-pool-')
        self.workers = [Worker(i, hashseed, extra_path, stderr_path, self.tmproot) for i in range(nworkers)]
        self.restarts = 0

    def close(self):
        for w in self.workers:
            w.close()
        shutil.rmtree(self.tmproot, ignore_errors=True)

    def run(self, reqs, timeout, on_result=None, grace=15.0):
        """reqs: list of request dicts.  Returns list of (req, results|None, status).

        status: 'ok' | 'hang' | 'crash'.  A chunk request that hangs or crashes is
        split into single-seed requests and retried once, so the culprit is attributable.
        """
        tasks = [{'req': r, 'n': i, 'retry': 0} for i, r in enumerate(reqs)]
        pending = list(reversed(tasks))
        done = {}
        extra = []
        sel = selectors.DefaultSelector()
        stopped = [False]
        for w in self.workers:
            sel.register(w.proc.stdout, selectors.EVENT_READ, w)

        def finish(task, results, status):
            req = task['req']
            if status != 'ok' and req.get('op') == 'run' and len(req['seeds']) > 1:
                # split to attribute
                for s in req['seeds']:
                    r2 = dict(req)
                    r2['seeds'] = [s]
                    t2 = {'req': r2, 'n': ('x', len(extra)), 'retry': 0}
                    extra.append(t2)
                    pending.append(t2)
                done[task['n']] = (req, [], 'split')
                return
            done[task['n']] = (req, results, status)
            if on_result is not None and on_result(req, results, status):
                # early stop: drop what has not started, give in-flight work a short grace
                for t in pending:
                    done[t['n']] = (t['req'], [], 'split')
                del pending[:]
                lim = time.monotonic() + grace
                for w2 in self.workers:
                    if w2.task is not None and w2.deadline is not None:
                        w2.deadline = min(w2.deadline, lim)
                stopped[0] = True

        def restart(w):
            try:
                sel.unregister(w.proc.stdout)
            except Exception:
                pass
            w.kill()
            w.start()
            self.restarts += 1
            sel.register(w.proc.stdout, selectors.EVENT_READ, w)

        inflight = 0
        while pending or inflight:
            for w in self.workers:
                if w.task is None and pending:
                    t = pending.pop()
                    try:
                        w.send(t, timeout)
                        inflight += 1
                    except (BrokenPipeError, OSError):
                        restart(w)
                        pending.append(t)
            events = sel.select(timeout=1.0)
            now = time.monotonic()
            for key, _ in events:
                w = key.data
                try:
                    chunk = os.read(key.fileobj.fileno(), 1 << 20)
                except OSError:
                    chunk = b''
                if not chunk:
                    # worker died
                    t = w.task
                    restart(w)
                    if t is not None:
                        inflight -= 1
                        finish(t, None, 'crash')
                    continue
                w.buf += chunk
                while b'\n' in w.buf:
                    line, w.buf = w.buf.split(b'\n', 1)
                    if not line.strip():
                        continue
                    msg = json.loads(line)
                    t = w.task
                    w.task = None
                    w.deadline = None
                    inflight -= 1
                    if t['req'].get('op') == 'run':
                        for sd, r_ in zip(t['req']['seeds'], msg['results']):
                            w.lineage.append(list(sd))
                            if r_.get('verdict') not in ('ok', 'known'):
                                r_['_lineage'] = list(w.lineage)
                    finish(t, msg['results'], 'ok')
            for w in self.workers:
                if w.task is not None and w.deadline is not None and now > w.deadline:
                    t = w.task
                    restart(w)
                    inflight -= 1
                    if stopped[0]:
                        done[t['n']] = (t['req'], [], 'split')
                    else:
                        finish(t, None, 'hang')
        sel.close()
        out = [done[t['n']] for t in tasks] + [done[t['n']] for t in extra]
        return [o for o in out if o[2] != 'split']


def load_prop(prop):
    return importlib.import_module('sim.' + prop.lower())


def load_known():
    p = os.path.join(VERIF_DIR, 'KNOWN_FINDINGS.json')
    if not os.path.exists(p):
        return []
    with open(p) as f:
        return json.load(f).get('findings', [])


def exec_scenario(pool, scenario, timeout):
    out = pool.run([{'op': 'exec', 'scenario': scenario}], timeout)
    req, results, status = out[0]
    if status != 'ok':
        return {'verdict': status, 'invariant': 'I-' + status, 'digest': None, 'detail': {}}
    return results[0]


def same_failure(res, ref):
    return res.get('verdict') == ref.get('verdict') and res.get('invariant') == ref.get('invariant') \
        and res.get('known') == ref.get('known')


def shrink(pool, mod, scenario, ref, timeout, max_exec=400, wall=90.0):
    """Delta debugging over the scenario while the same invariant keeps failing."""
    t0 = time.monotonic()
    nexec = 0
    cur = scenario
    cur_res = ref
    improved = True
    nw = len(pool.workers)
    while improved and nexec < max_exec and time.monotonic() - t0 < wall:
        improved = False
        cands = []
        for cand in mod.shrink_candidates(cur):
            cands.append(cand)
            if len(cands) >= 4 * nw:
                break
        if not cands:
            break
        # evaluate in parallel, accept the first (in candidate order) that still fails
        out = pool.run([{'op': 'exec', 'scenario': c} for c in cands], timeout)
        nexec += len(cands)
        for (req, results, status), cand in zip(out, cands):
            if status == 'ok' and results and same_failure(results[0], ref):
                cur = cand
                cur_res = results[0]
                improved = True
                break
            if status == 'hang' and ref.get('verdict') == 'hang':
                cur = cand
                improved = True
                break
    return cur, cur_res, nexec


def shrink_fresh(mod, scenario, ref, timeout, extra_path, max_rounds=10, width=8):
    """Like shrink(), but every candidate runs in an interpreter that has executed nothing else (one short-lived pool
    per round).  Used when the fast shrink in the long-lived pool produced something that does not replay: workers that
    have seen other scenarios may carry process-level state of the code under test."""
    cur, cur_res, nexec = scenario, ref, 0
    for _ in range(max_rounds):
        cands = []
        for cand in mod.shrink_candidates(cur):
            cands.append(cand)
            if len(cands) >= width:
                break
        if not cands:
            break
        p = Pool(len(cands), hashseed=4242, extra_path=extra_path)
        try:
            out = p.run([{'op': 'exec', 'scenario': c} for c in cands], timeout)
        finally:
            p.close()
        nexec += len(cands)
        for (req, results, status), cand in zip(out, cands):
            if status == 'ok' and results and same_failure(results[0], ref):
                cur, cur_res = cand, results[0]
                break
        else:
            break
    return cur, cur_res, nexec


def exec_history(scenarios, timeout, extra_path=None, hashseed=12345):
    """the scenarios one after the other in one fresh interpreter; returns the list of results or None"""
    fresh = Pool(1, hashseed=hashseed, extra_path=extra_path)
    try:
        out = fresh.run([{'op': 'exec_seq', 'scenarios': scenarios}], timeout)
    finally:
        fresh.close()
    req, results, status = out[0]
    if status != 'ok' or not results or len(results) != len(scenarios):
        return None
    return results


def history_replay(mod, prop, v, extra_path, wall=240.0, max_len=4000):
    """A violation that does not replay from its own scenario may depend on what the worker interpreter executed
    before it.  Re-run that interpreter's whole history in a fresh one; if the violation comes back, minimise the
    history (ddmin on the predecessors) and return (scenarios, result, executions)."""
    lin = v.get('_lineage')
    if not lin or len(lin) < 2 or len(lin) > max_len:
        return None
    t0 = time.monotonic()
    scens = [mod.generate(sd, b) for b, sd in lin]
    budget = mod.TIMEOUT * 4

    def test(prefix):
        rs = exec_history(prefix + [scens[-1]], budget, extra_path)
        return rs[-1] if rs and same_failure(rs[-1], v) else None
    nexec = 1
    last = test(scens[:-1])
    if last is None:
        return None
    cur = scens[:-1]
    n = 2
    while len(cur) >= 1 and time.monotonic() - t0 < wall:
        chunk = max(1, len(cur) // n)
        reduced = False
        for i in range(0, len(cur), chunk):
            cand = cur[:i] + cur[i + chunk:]
            nexec += 1
            r = test(cand)
            if r is not None:
                cur, last = cand, r
                n = max(n - 1, 2)
                reduced = True
                break
            if time.monotonic() - t0 > wall:
                break
        if not reduced:
            if chunk == 1:
                break
            n = min(len(cur), n * 2)
    return cur + [scens[-1]], last, nexec


def tier_of(argv_tier):
    t = os.environ.get('VERIF_TIER') or argv_tier
    return t if t in ('quick', 'thorough') else 'quick'


def run_check(prop, tier, base_seed, nworkers=None, extra_path=None, hashseed=0, quiet=False,
              write_evidence=True, scale=1.0, collect_digests=False, stderr_path=None):
    mod = load_prop(prop)
    nworkers = nworkers or int(os.environ.get('VERIF_WORKERS', '16'))
    t0 = time.time()
    known = [k for k in load_known() if k.get('property') == prop and k.get('status') == 'open']
    reqs = []
    n_eval = 0
    for batch, count in mod.BATCHES[tier]:
        count = max(1, int(count * scale))
        chunk = mod.CHUNK.get(batch, 20)
        seeds = [[batch, derive_seed(base_seed, prop, batch, i)] for i in range(count)]
        n_eval += count
        for i in range(0, count, chunk):
            reqs.append({'op': 'run', 'prop': prop, 'seeds': seeds[i:i + chunk],
                         'want_scen': i == 0})
    # interleave so that slow batches do not pile up at the end
    reqs.sort(key=lambda r: -mod.COST.get(r['seeds'][0][0], 1))
    det_n = int(os.environ.get('VERIF_DET_PAIRS', '300' if tier == 'thorough' else '40')) if write_evidence else 0
    det_sample = []
    det_checked = 0
    det_mismatch = []
    pool = Pool(nworkers, hashseed=hashseed, extra_path=extra_path, stderr_path=stderr_path)
    agg = dict(evaluations=0, signatures=set(), probes={}, faults={}, exceptions={}, steps=0,
               sim_time=0.0, verdicts={}, samples=[], by_batch={}, components=None)
    violations = []
    known_hits = {}
    errors = []
    digests = {}
    try:
        def stop_on_violation(req, results, status):
            return bool(results) and any(r.get('verdict') == 'violation' for r in results)
        out = pool.run(reqs, mod.TIMEOUT, on_result=stop_on_violation)
        for req, results, status in out:
            if status != 'ok':
                errors.append({'status': status, 'seeds': req.get('seeds')})
                continue
            for (batch, seed), res in zip(req['seeds'], results):
                agg['evaluations'] += 1
                core.bump(agg['by_batch'], batch)
                core.bump(agg['verdicts'], res['verdict'])
                if collect_digests or len(det_sample) < det_n:
                    digests['%s:%d' % (batch, seed)] = res.get('digest')
                    if len(det_sample) < det_n and res.get('verdict') in ('ok', 'known'):
                        det_sample.append((batch, seed))
                for k in ('probes', 'faults', 'exceptions'):
                    for kk, vv in (res.get(k) or {}).items():
                        core.bump(agg[k], kk, vv)
                agg['steps'] += res.get('steps', 0)
                agg['sim_time'] += res.get('sim_time', 0.0)
                if res.get('components') and not agg['components']:
                    agg['components'] = res['components']
                if res.get('nontrivial') and res.get('signature'):
                    for s in (res['signature'] if isinstance(res['signature'], list) else [res['signature']]):
                        agg['signatures'].add(s)
                if 'scenario' in res and res['verdict'] == 'ok' and len(agg['samples']) < 3:
                    agg['samples'].append({'scenario': res['scenario'], 'signature': res.get('signature'),
                                           'digest': res.get('digest')})
                if res['verdict'] == 'violation':
                    violations.append(res)
                elif res['verdict'] == 'known':
                    known_hits.setdefault(res['known'], []).append(res)
                elif res['verdict'] == 'error':
                    errors.append({'status': 'harness', 'seed': seed, 'batch': batch, 'detail': res.get('detail')})
        # determinism self-check: re-run a sample of seeds in other interpreters (3 workers, other hash seed and
        # other OpenMP environments per slot) and compare the run digests
        if det_sample and not violations:
            pool2 = Pool(3, hashseed=12345, extra_path=extra_path)
            try:
                out2 = pool2.run([{'op': 'run', 'prop': prop, 'seeds': [[b, sd]]} for b, sd in det_sample], mod.TIMEOUT)
            finally:
                pool2.close()
            for req2, results2, status2 in out2:
                b, sd = req2['seeds'][0]
                if status2 != 'ok' or not results2:
                    continue
                det_checked += 1
                if results2[0].get('digest') != digests.get('%s:%d' % (b, sd)):
                    # reported in the evidence and on stdout, but not fatal: the verdicts themselves agree or the
                    # scenario would have shown up as a (non-)reproducing violation
                    det_mismatch.append({'batch': b, 'seed': sd, 'first': digests.get('%s:%d' % (b, sd)),
                                         'second': results2[0].get('digest'),
                                         'verdicts': [None, results2[0].get('verdict')]})
        agg['det_checked'] = det_checked
        agg['det_mismatch'] = det_mismatch
        # an unattributed hang/crash: for properties about termination a reproducible hang is a violation
        reports = []
        if errors and getattr(mod, 'HANG_IS_VIOLATION', False):
            still = []
            for e in errors:
                if e['status'] == 'hang' and e.get('seeds') and len(e['seeds']) == 1:
                    batch, seed = e['seeds'][0]
                    scen = mod.generate(seed, batch)
                    again = exec_scenario(pool, scen, mod.TIMEOUT)
                    if again.get('verdict') == 'hang':
                        violations.append({'verdict': 'hang', 'invariant': 'I4-hang', 'scenario': scen,
                                           'detail': {'hang': 'no answer within %ss, twice' % mod.TIMEOUT},
                                           'seed': seed, 'digest': None})
                        continue
                still.append(e)
            errors = still
        # shrink + replay at most a few violations (distinct invariants first)
        seen_inv = set()
        violations.sort(key=lambda r: (r.get('invariant') or '', jdump(r.get('scenario'))[:50]))
        nrep = 0
        tried = {}
        hist_tried = set()
        for v in violations:
            if v['invariant'] in seen_inv or nrep >= 3 or tried.get(v['invariant'], 0) >= 4:
                continue
            tried[v['invariant']] = tried.get(v['invariant'], 0) + 1
            nrep += 1
            scen, res, nexec = shrink(pool, mod, v['scenario'], v, mod.TIMEOUT)
            # replay in a fresh interpreter
            fresh = Pool(1, hashseed=12345, extra_path=extra_path)
            try:
                rep = exec_scenario(fresh, scen, mod.TIMEOUT)
            finally:
                fresh.close()
            if not same_failure(rep, v) or rep.get('digest') != res.get('digest'):
                # the fast shrink ran in workers with a past; does the scenario as found replay on its own?
                fresh = Pool(1, hashseed=12345, extra_path=extra_path)
                try:
                    rep0 = exec_scenario(fresh, v['scenario'], mod.TIMEOUT)
                finally:
                    fresh.close()
                if same_failure(rep0, v):
                    scen, res, nexec2 = shrink_fresh(mod, v['scenario'], rep0, mod.TIMEOUT, extra_path)
                    nexec += nexec2
                    fresh = Pool(1, hashseed=777, extra_path=extra_path)
                    try:
                        rep = exec_scenario(fresh, scen, mod.TIMEOUT)
                    finally:
                        fresh.close()
            if not same_failure(rep, v) or rep.get('digest') != res.get('digest'):
                hr = history_replay(mod, prop, v, extra_path) if v['invariant'] not in hist_tried else None
                hist_tried.add(v['invariant'])
                if hr is not None:
                    hscens, hres, hexec = hr
                    again = exec_history(hscens, mod.TIMEOUT * 4, extra_path, hashseed=777)
                    if again and same_failure(again[-1], v) and again[-1].get('digest') == hres.get('digest'):
                        seen_inv.add(v['invariant'])
                        errors[:] = [e for e in errors if not (e.get('status') == 'non-reproducing' and e.get('invariant') == v['invariant'])]
                        os.makedirs(os.path.join(VERIF_DIR, 'replays'), exist_ok=True)
                        path = os.path.join(VERIF_DIR, 'replays', '%s-%s-%d.json' % (prop, v.get('seed'), nrep))
                        with open(path, 'w') as f:
                            json.dump({'property': prop, 'invariant': v['invariant'], 'detail': hres.get('detail'),
                                       'step': hres.get('step'), 'digest': hres.get('digest'),
                                       'history': hscens[:-1], 'scenario': hscens[-1],
                                       'original_seed': v.get('seed'), 'shrink_executions': hexec,
                                       'original_history_length': len(v.get('_lineage') or []),
                                       'env': {'note': 'the violation needs the scenarios under "history" to run first in the same '
                                                       'interpreter; replay with ./check %s --replay <this file>' % prop}},
                                      f, indent=1, allow_nan=True)
                        det = dict(hres.get('detail') or {})
                        det['process_history'] = '%d earlier scenario(s) in the same interpreter are needed' % (len(hscens) - 1)
                        reports.append((v['invariant'], path, det))
                        continue
                nrep -= 1      # does not count as a report; another scenario with the same invariant may reproduce
                os.makedirs(os.path.join(VERIF_DIR, 'replays'), exist_ok=True)
                with open(os.path.join(VERIF_DIR, 'replays', '%s-nonrepro-%s.json' % (prop, v.get('seed'))), 'w') as f:
                    json.dump({'property': prop, 'invariant': v['invariant'], 'scenario': scen, 'first': res.get('detail'),
                               'replay': rep.get('detail')}, f, indent=1, allow_nan=True)
                errors.append({'status': 'non-reproducing', 'invariant': v['invariant'],
                               'first': res.get('digest'), 'replay': rep.get('digest'),
                               'replay_verdict': rep.get('verdict'), 'replay_invariant': rep.get('invariant')})
                continue
            seen_inv.add(v['invariant'])
            # a reproducing scenario for this invariant makes earlier non-reproducing attempts for it irrelevant
            errors[:] = [e for e in errors if not (e.get('status') == 'non-reproducing' and e.get('invariant') == v['invariant'])]
            os.makedirs(os.path.join(VERIF_DIR, 'replays'), exist_ok=True)
            path = os.path.join(VERIF_DIR, 'replays', '%s-%s-%d.json' % (prop, v.get('seed'), nrep))
            with open(path, 'w') as f:
                json.dump({'property': prop, 'invariant': v['invariant'], 'detail': rep.get('detail'),
                           'step': rep.get('step'), 'digest': rep.get('digest'), 'scenario': scen,
                           'original_seed': v.get('seed'), 'shrink_executions': nexec,
                           'env': {'note': 'replay with ./check %s --replay <this file>' % prop}},
                          f, indent=1, allow_nan=True)
            reports.append((v['invariant'], path, rep.get('detail')))
    finally:
        pool.close()
    wall = time.time() - t0
    # ---- output
    for kid, hits in sorted(known_hits.items()):
        what = next((k.get('what') for k in known if k.get('id') == kid), '')
        if not quiet:
            print('KNOWN-FINDING: property=%s %s: %s (%d scenarios; full text in KNOWN_FINDINGS.json)' % (
                prop, kid, (what[:200] + '...') if len(what) > 200 else what, len(hits)))
    for inv, path, detail in reports:
        print('VIOLATION property=%s replay=%s' % (prop, path))
        print('  invariant=%s detail=%s' % (inv, jdump(detail)[:600]))
    for dm in (agg.get('det_mismatch') or [])[:3]:
        print('NOTE property=%s digest of seed %s (batch %s) differs between two interpreters: replay files of this scenario may not reproduce bit for bit' % (prop, dm['seed'], dm['batch']))
    if errors:
        for e in errors[:10]:
            print('HARNESS-ERROR property=%s %s' % (prop, jdump(e)[:800]))
    rc = 0
    if reports:
        rc = 1
    elif errors:
        rc = 2
    ev = None
    if write_evidence:
        ev = write_evidence_file(mod, prop, tier, base_seed, agg, wall, len(violations), known_hits, errors,
                                 nworkers, pool.restarts)
    if not quiet:
        print('%s %s seed=%d: %d scenarios, %d distinct non-trivial signatures, %d violations, %d known-finding hits, '
              '%d harness errors, %.1fs' % (prop, tier, base_seed, agg['evaluations'], len(agg['signatures']),
                                             len(violations), sum(len(v) for v in known_hits.values()),
                                             len(errors), wall))
    return rc, agg, digests


def write_evidence_file(mod, prop, tier, base_seed, agg, wall, nviol, known_hits, errors, nworkers, restarts):
    os.makedirs(os.path.join(VERIF_DIR, 'evidence'), exist_ok=True)
    comps = agg['components'] or getattr(mod, 'COMPONENTS', {})
    ev = {
        'property_id': prop,
        'tier': tier,
        'seed': int(base_seed),
        'level': 'exploration',
        'wall_s': round(wall, 2),
        'violations': int(nviol),
        'coverage': {
            'evaluations': int(agg['evaluations']),
            'distinct_nontrivial': int(len(agg['signatures'])),
            'rule': mod.RULE,
            'samples': agg['samples'][:3] if agg['samples'] else [{'note': 'no sample returned'}],
            'runs_per_hour': int(agg['evaluations'] / max(wall, 1e-9) * 3600),
            'seeds': int(agg['evaluations']),
            'by_batch': agg['by_batch'],
            'sim_steps': int(agg['steps']),
            'sim_time': agg['sim_time'],
            'sim_time_note': getattr(mod, 'SIM_TIME_NOTE', 'the code under test has no clock; sim_steps counts simulated operations'),
            'faults_injected': agg['faults'],
            'probes': agg['probes'],
            'exceptions_by_class': agg['exceptions'],
            'verdicts': agg['verdicts'],
            'known_finding_hits': {k: len(v) for k, v in known_hits.items()},
            'harness_errors': len(errors),
            'components': comps,
            'workers': nworkers,
            'worker_restarts': restarts,
            'signature_examples': sorted(agg['signatures'])[:12],
            'determinism_pairs_checked': int(agg.get('det_checked', 0)),
            'determinism_mismatches': agg.get('det_mismatch', [])[:5],
        },
        'assumptions': getattr(mod, 'ASSUMPTIONS', []),
    }
    path = os.path.join(VERIF_DIR, 'evidence', prop + '.json')
    tmp = path + '.tmp'
    with open(tmp, 'w') as f:
        json.dump(ev, f, indent=1, allow_nan=False, default=str)
    os.replace(tmp, path)
    return ev


def replay(prop, path):
    with open(path) as f:
        doc = json.load(f)
    scen = doc['scenario']
    mod = load_prop(scen['prop'])
    if doc.get('history'):
        rs = exec_history(list(doc['history']) + [scen], mod.TIMEOUT * 4, hashseed=777)
        res = rs[-1] if rs else {'verdict': 'error', 'detail': {'harness_error': 'history replay did not complete'}}
    else:
        pool = Pool(1, hashseed=777)
        try:
            res = exec_scenario(pool, scen, mod.TIMEOUT)
        finally:
            pool.close()
    print('replay %s: verdict=%s invariant=%s digest=%s' % (path, res.get('verdict'), res.get('invariant'), res.get('digest')))
    print('  detail=%s' % jdump(res.get('detail'))[:2000])
    want = doc.get('invariant')
    if res.get('verdict') in ('violation', 'hang', 'known') and res.get('invariant') == want:
        same = (res.get('digest') == doc.get('digest'))
        print('REPRODUCED invariant=%s digest_match=%s' % (want, same))
        if res.get('verdict') == 'known':
            print('KNOWN-FINDING: property=%s %s' % (scen['prop'], res.get('known')))
            return 0
        print('VIOLATION property=%s replay=%s' % (scen['prop'], path))
        return 1
    print('NOT-REPRODUCED (recorded invariant=%s)' % want)
    return 0 if res.get('verdict') == 'ok' else 2


def main(argv):
    if len(argv) < 2:
        print('usage: driver <Cxx> quick|thorough | <Cxx> --replay <file>')
        return 2
    prop = argv[0].upper()
    if argv[1] == '--replay':
        return replay(prop, argv[2])
    tier = tier_of(argv[1])
    base_seed = int(os.environ.get('VERIF_SEED', '1'))
    scale = float(os.environ.get('VERIF_SCALE', '1'))
    rc, agg, _ = run_check(prop, tier, base_seed, scale=scale,
                           stderr_path=os.environ.get('VERIF_WORKER_STDERR'))
    return rc


if __name__ == '__main__':
    sys.exit(main(sys.argv[1:]))
