"""Shared kernel of the simulator: seeds, event log/digest, verdict classes.

Nothing in this module imports compmech, numpy or scipy at import time, so the
batch driver (which must never load libgomp) can use it.
"""
import hashlib
import json
import os
import random
import struct

VERIF_DIR = os.path.dirname(os.path.dirname(os.path.abspath(__file__)))
REPO_DIR = os.environ.get('VERIF_REPO', '/repo')
PYTHON = os.environ.get('VERIF_PYTHON', '/venv/bin/python')

CLAIMED = ['C05', 'C06', 'C09', 'C11', 'C17', 'C20']


def derive_seed(base, prop, batch, i):
    """seed_i = H(VERIF_SEED, property, sub-batch, i) -> 63-bit int."""
    h = hashlib.sha256(('%d|%s|%s|%d' % (base, prop, batch, i)).encode()).digest()
    return struct.unpack('>Q', h[:8])[0] >> 1


def rng_for(seed, *salt):
    """A fresh random.Random that is a pure function of (seed, salt)."""
    h = hashlib.sha256(('%d|' % seed + '|'.join(str(s) for s in salt)).encode()).digest()
    return random.Random(int.from_bytes(h[:16], 'big'))


def jdump(obj):
    return json.dumps(obj, sort_keys=True, separators=(',', ':'), allow_nan=True)


class Violation(Exception):
    """Raised by an oracle.  `invariant` identifies the clause that failed."""

    def __init__(self, invariant, detail=None, step=None):
        Exception.__init__(self, invariant)
        self.invariant = invariant
        self.detail = detail or {}
        self.step = step


class HarnessError(Exception):
    """The machinery (not the code under test) is at fault."""


class EventLog(object):
    """Append-only log of what happened in a run; its SHA-256 is the run digest.

    Logging never draws random numbers and never reads a clock.
    """

    def __init__(self, keep=400):
        self._h = hashlib.sha256()
        self.n = 0
        self.keep = keep
        self.tail = []

    def add(self, *fields):
        s = jdump(fields)
        self._h.update(s.encode())
        self._h.update(b'\n')
        self.n += 1
        if self.keep:
            self.tail.append(s)
            if len(self.tail) > self.keep:
                del self.tail[:len(self.tail) - self.keep]

    def digest(self):
        return self._h.hexdigest()


def sha_bytes(b):
    return hashlib.sha1(b).hexdigest()[:16]


class Result(dict):
    """What a worker reports for one scenario (plain dict, JSON-able)."""

    @staticmethod
    def new(prop, seed):
        return Result(prop=prop, seed=seed, verdict='ok', invariant=None, detail=None,
                      step=None, digest=None, signature='', nontrivial=False,
                      probes={}, faults={}, exceptions={}, steps=0, sim_time=0.0,
                      known=None, components=None)


def bump(d, key, n=1):
    d[key] = d.get(key, 0) + n


_KNOWN_CACHE = {}


def known_open(prop):
    """Open entries of the committed KNOWN_FINDINGS.json for a property: {id: entry}."""
    if prop not in _KNOWN_CACHE:
        p = os.path.join(VERIF_DIR, 'KNOWN_FINDINGS.json')
        out = {}
        if os.path.exists(p):
            with open(p) as f:
                for e in json.load(f).get('findings', []):
                    if e.get('property') == prop and e.get('status') == 'open':
                        out[e['id']] = e
        _KNOWN_CACHE[prop] = out
    return _KNOWN_CACHE[prop]


def settle(res, v, known_id=None):
    """Record a Violation in a Result, as a known finding when the committed list names it."""
    prop = res.get('prop')
    if known_id and known_id in known_open(prop):
        res['verdict'] = 'known'
        res['known'] = known_id
    else:
        res['verdict'] = 'violation'
    res['invariant'] = v.invariant
    res['detail'] = v.detail
    res['step'] = v.step
    return res
